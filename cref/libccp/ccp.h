#ifndef CCP_H
#define CCP_H

#ifdef __KERNEL__
    #include <linux/types.h>
    #include <linux/module.h>
#else
    #include <stdbool.h>
    #include <pthread.h> // for mutex
#endif

#include "types.h"

#ifdef __cplusplus
extern "C" {
#endif

/* Datapaths must support these measurement primitives.
 * Each value is reported *per invocation*. 
 *
 * n.b. Ideally, an invocation is every packet, but datapaths might choose to call
 * ccp_invoke() less often.
 */
struct ccp_primitives {
    // newly acked, in-order bytes
    u32 bytes_acked;
    // newly acked, in-order packets
    u32 packets_acked;
    // out-of-order bytes
    u32 bytes_misordered;
    // out-of-order packets
    u32 packets_misordered;
    // bytes corresponding to ecn-marked packets
    u32 ecn_bytes;
    // ecn-marked packets
    u32 ecn_packets;

    // an estimate of the number of packets lost
    u32 lost_pkts_sample;
    // whether a timeout was observed
    bool was_timeout;

    // a recent sample of the round-trip time
    u64 rtt_sample_us;
    // sample of the sending rate, bytes / s
    u64 rate_outgoing;
    // sample of the receiving rate, bytes / s
    u64 rate_incoming;
    // the number of actual bytes in flight
    u32 bytes_in_flight;
    // the number of actual packets in flight
    u32 packets_in_flight;
    // the target congestion window to maintain, in bytes
    u32 snd_cwnd;
    // target rate to maintain, in bytes/s
    u64 snd_rate;

    // amount of data available to be sent
    // NOT per-packet - an absolute measurement
    u32 bytes_pending;
};

// maximum string length for congAlg
#define  MAX_CONG_ALG_SIZE   64
/* Datapaths provide connection information to ccp_connection_start
 */
struct ccp_datapath_info {
    u32 init_cwnd;
    u32 mss;
    u32 src_ip;
    u32 src_port;
    u32 dst_ip;
    u32 dst_port;
    char congAlg[MAX_CONG_ALG_SIZE];
};

/* 
 * CCP state per connection. 
 * impl is datapath-specific, the rest are internal to libccp
 * for example, the linux kernel datapath uses impl to store a pointer to struct sock
 */
struct ccp_connection {
    // the index of this array element
    u16 index;

    u64 last_create_msg_sent;

    // struct ccp_primitives is large; as a result, we store it inside ccp_connection to avoid
    // potential limitations in the datapath
    // datapath should update this before calling ccp_invoke()
    struct ccp_primitives prims;
    
    // constant flow-level information
    struct ccp_datapath_info flow_info;

    // private libccp state for the send machine and measurement machine
    void *state;

    // datapath-specific per-connection state
    void *impl;

    // pointer back to parent datapath that owns this connection
    struct ccp_datapath *datapath;
};

enum ccp_log_level {
    TRACE,
    DEBUG,
    INFO,
    WARN,
    ERROR,
};

/*
 * Global CCP state provided by the datapath
 *
 * Callbacks:
 * 1. set_cwnd(): set the congestion window
 * 2. set_rate_abs(): set the rate
 *
 * Time functions 
 * 3. now(): return a notion of time.
 * 4. since_usecs(u32 then): elapsed microseconds since <then>.
 * 5. after_usecs(u32 usecs): return a time <usecs> microseconds in the future.
 *
 * Utility functions
 * 6.  send_msg(): send a message from datapath -> userspace CCP.
 * 7.  log(): (optional)
 */
struct ccp_datapath {
    // control primitives
    void (*set_cwnd)(struct ccp_connection *conn, u32 cwnd); 
    void (*set_rate_abs)(struct ccp_connection *conn, u32 rate);

    // IPC communication
    int (*send_msg)(struct ccp_datapath *dp, char *msg, int msg_size);

    // logging
    void (*log)(struct ccp_datapath *dp, enum ccp_log_level level, const char* msg, int msg_size);

    // time management
    u64 time_zero;
    u64 (*now)(void); // the current time in datapath time units
    u64 (*since_usecs)(u64 then); // elapsed microseconds since <then>
    u64 (*after_usecs)(u64 usecs); // <usecs> microseconds from now in datapath time units

    size_t max_connections;
    // list of active connections this datapath is handling
    struct ccp_connection* ccp_active_connections;

    u64 fto_us;
    u64 last_msg_sent;
    bool _in_fallback;

    size_t max_programs;
    // list of datapath programs
    void *programs;
    
    // datapath-specific global state
    void *impl;
};

/* Initialize CCP.
 *
 * This function should be called before any other libccp functions and ensures (as much as possible) 
 * that the datapath structure has been initialized correctly. 
 *
 * A valid ccp_datapath must contain:
 *   1. 6 callback functions: set_cwnd, set_rate_abs, send_msg, now, since_users, after_usecs
 *   2. an optional callback function for logging
 *   3. a pointer to memory allocated for a list of ccp_connection objects
 *      (as well as the number of connections it can hold)
 *   4. a fallback timeout value in microseconds (must be > 0)
 *
 * The id argument uniquely identifies this datapath.
 *
 * IMPORTANT: caller must allocate..
 * 1. ccp_datapath
 * 2. ccp_datapath.ccp_active_connections with enough space for `max_connections` `ccp_connections`
 * ccp_init has no way of checking if enough space has been allocated, so any memory oob errors are
 * likely a result not allocating enough space.
 *
 * If the userspace CCP process isn't listening, this function will have the same failure behavior and return value as send_msg.  
 * In this case, initialization is considered to not be complete, and the caller is expected to try again.
 *
 * This function returns 0 if the structure has been initialized correctly and a negative value
 * with an error code otherwise. 
 */
int ccp_init(struct ccp_datapath *dp, u32 id);

/* Free the global struct and map for ccp connections upon module unload.
 */
void ccp_free(struct ccp_datapath *datapath);

/* Upon a new flow starting,
 * put a new connection into the active connections list
 *
 * returns the index at which the connection was placed; this index shall be used as the CCP socket id
 * return 0 on error
 */
struct ccp_connection *ccp_connection_start(struct ccp_datapath *datapath, void *impl, struct ccp_datapath_info *flow_info);

/* Upon a connection ending,
 * free its slot in the connection map.
 */
void ccp_connection_free(struct ccp_datapath *datapath, u16 sid);

/* While a flow is active, look up its CCP connection information.
 */
struct ccp_connection *ccp_connection_lookup(struct ccp_datapath *datapath, u16 sid);

/* Get the implementation-specific state of the ccp_connection.
 */
void *ccp_get_impl(struct ccp_connection *conn);

void ccp_set_impl(
    struct ccp_connection *conn, 
    void *ptr
);

/* Callback to pass to IPC for incoming messages.
 * Cannot take ccp_connection as an argument, since it's a callback.
 * Therefore, must look up ccp_connction from socket_id.
 * buf: the received message, of size bufsize.
 */
int ccp_read_msg(
    struct ccp_datapath *datapath, 
    char *buf,
    int bufsize
);

/* Should be called along with the ACK clock.
 *
 * Will invoke the send and measurement machines.
 */
int ccp_invoke(struct ccp_connection *conn);

void _update_fto_timer(struct ccp_datapath *datapath);
bool _check_fto(struct ccp_datapath *datapath);
void _turn_off_fto_timer(struct ccp_datapath *datapath);

#ifdef __cplusplus
} // extern "C"
#endif

#endif
