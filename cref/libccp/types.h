#ifndef CCP_TYPES_H
#define CCP_TYPES_H

#ifdef __KERNEL__
#include <linux/types.h>
#else
#include <stdint.h>
#endif

#include "ccp_error.h"

typedef uint8_t u8;
typedef uint16_t u16;
typedef uint32_t u32;
typedef uint64_t u64;

#endif
