/* 
 * CCP Datapath Message Serialization 
 * 
 * Serializes and deserializes messages for communication with userspace CCP.
 */
#ifndef CCP_SERIALIZE_H
#define CCP_SERIALIZE_H

#include "types.h"
#include "ccp.h"

#ifdef __cplusplus
extern "C" {
#endif

struct __attribute__((packed, aligned(4))) CcpMsgHeader {
    u16 Type;
    u16 Len;
    u32 SocketId;
};

/* return: sizeof(struct CcpMsgHeader) on success, -1 otherwise.
 */
int read_header(struct CcpMsgHeader *hdr, char *buf);

/* return: sizeof(struct CcpMsgHeader) on success, -1 otherwise.
 */
int serialize_header(char *buf, int bufsize, struct CcpMsgHeader *hdr);

/* There are 4 message types (Type field in header)
 * CREATE and MEASURE are written from datapath to CCP
 * PATTERN and INSTALL_FOLD are received in datapath from CCP
 * 
 * Messages start with the header, then 
 * 1. fixed number of u32
 * 2. fixed number of u64
 * 3. bytes blob, flexible length
 */
#define  CREATE        0
#define  MEASURE       1
#define  INSTALL_EXPR  2
#define  UPDATE_FIELDS 3
#define  CHANGE_PROG   4
#define  READY         5

// Some messages contain strings.
#define  BIGGEST_MSG_SIZE  32678

// create messages are fixed length: header + 4 * 6 + 32
#define CREATE_MSG_SIZE     96
// size of report msg is approx MAX_REPORT_REG * 8 + 4 + 4
#define REPORT_MSG_SIZE     900
// ready message is just a u32.
#define READY_MSG_SIZE 12

// Some messages contain serialized fold instructions.
#define MAX_EXPRESSIONS    256 // arbitrary TODO: make configurable
#define MAX_INSTRUCTIONS   256 // arbitrary, TODO: make configurable
#define MAX_IMPLICIT_REG   6  // fixed number of implicit registers
#define MAX_REPORT_REG     110 // measure msg 110 * 8 + 4 + 4
#define MAX_CONTROL_REG    110 // arbitrary
#define MAX_TMP_REG        8
#define MAX_LOCAL_REG      8
#define MAX_MUTABLE_REG    222 // # report + # control + cwnd, rate registers

struct __attribute__((packed, aligned(4))) ReadyMsg {
    u32 id;
};

/* READY
 * id: The unique id of this datapath.
 */
int write_ready_msg(
    char *buf,
    int bufsize,
    u32 id
);

/* CREATE
 * congAlg: the datapath's requested congestion control algorithm (could be overridden)
 */
struct __attribute__((packed, aligned(4))) CreateMsg {
    u32 init_cwnd;
    u32 mss;
    u32 src_ip;
    u32 src_port;
    u32 dst_ip;
    u32 dst_port;
    char congAlg[MAX_CONG_ALG_SIZE];
};

/* Write cr: CreateMsg into buf with socketid sid.
 * buf should be preallocated, and bufsize should be its size.
 */
int write_create_msg(
    char *buf,
    int bufsize,
    u32 sid,
    struct CreateMsg cr
);

/* MEASURE
 * program_uid: unique id for the datapath program that generated this report,
 *              so that the ccp can use the corresponding scope
 * num_fields: number of returned fields,
 * bytes: the return registers of the installed fold function ([]uint64).
 *        there will be at most MAX_PERM_REG returned registers
 */
struct __attribute__((packed, aligned(4))) MeasureMsg {
    u32 program_uid;
    u32 num_fields;
    u64 fields[MAX_REPORT_REG];
};

/* Write ms: MeasureMsg into buf with socketid sid.
 * buf should be preallocated, and bufsize should be its size.
 */
int write_measure_msg(
    char *buf,
    int bufsize,
    u32 sid,
    u32 program_uid,
    u64 *msg_fields,
    u8 num_fields
);

/* INSTRUCTION
 * 1 u8 for opcode
 * 3 sets of {u8, u32} for each of the result register, left register and right register
 */
struct __attribute__((packed, aligned(4))) InstructionMsg {
    u8 opcode;
    u8 result_reg_type;
    u32 result_register;
    u8 left_reg_type;
    u32 left_register;
    u8 right_reg_type;
    u32 right_register;
};


/* ExpressionMsg: 4 u32s
 * start of expression condition instr ID
 * number of expression condition instrs
 * start of event body instr ID
 * number of event body instrs
 */
struct __attribute__((packed, aligned(4))) ExpressionMsg {
    u32 cond_start_idx;
    u32 num_cond_instrs;
    u32 event_start_idx;
    u32 num_event_instrs;
};

struct __attribute__((packed, aligned(4))) InstallExpressionMsgHdr {
    u32 program_uid;
    u32 num_expressions;
    u32 num_instructions;
};

/* return: size of InstallExpressionMsgHeader
 * copies from buffer into InstallExpressionMsgHdr struct.
 * also checks whether the number of instructions or expressions is too large.
 * InstallExprMessage:
 * {
 *  struct InstallExpressionMsgHeader (3 u32s)
 *  ExpressionMsg[num_expressions]
 *  InstructionMsg[num_instructions]
 * }
 */
int read_install_expr_msg_hdr(
    struct ccp_datapath *datapath,
    struct CcpMsgHeader *hdr,
    struct InstallExpressionMsgHdr *expr_msg_info,
    char *buf
);

struct __attribute__((packed, aligned(1))) UpdateField {
    u8 reg_type;
    u32 reg_index;
    u64 new_value;
};

/* Fills in number of updates.
 * Check whether number of updates is too large.
 * Returns size of update field header: 1 u32
 * UpdateFieldsMsg:
 * {
 *  1 u32: num_updates
 *  UpdateField[num_updates]
 * }
 */
int check_update_fields_msg(
    struct ccp_datapath *datapath,
    struct CcpMsgHeader *hdr,
    u32 *num_updates,
    char *buf
);

struct __attribute__((packed, aligned(1))) ChangeProgMsg {
    u32 program_uid;
    u32 num_updates;
};

int read_change_prog_msg(
    struct ccp_datapath *datapath,
    struct CcpMsgHeader *hdr,
    struct ChangeProgMsg *change_prog,
    char *buf
);

#ifdef __cplusplus
} // extern "C"
#endif

#endif
