#include "ccp_priv.h"
#include "ccp_error.h"

/*
 * CCP Send State Machine
 *
 * Userspace CCP algorithms specify "expressions".
 * Expressions are conditions (a series of instructions that evaluate to a boolean expression)
 * followed by a set of instructions to execute if that event is true
 */

#define CCP_FRAC_DENOM 10

/*
 * Aggregator functions
 * Corresponds to operations sent down in instruction messages
 * Bind, ifcnt, and ifnotcnt are directly inline
 */
static u64 myadd64(u64 a, u64 b) {
    return a + b;
}

static u64 mydiv64(u64 a, u64 b) {
    return a/b;
}

static u64 myequiv64(u64 a, u64 b) {
    return ( a == b );
}

static u64 myewma64(u64 a, u64 b, u64 c) {
    u64 num;
    u64 old = a * b;
    u64 new_val = ( CCP_FRAC_DENOM - a ) * c;
    if ( b == 0 ) {
        return c;
    }
    num = old + new_val;
    return num/CCP_FRAC_DENOM;
}

static u64 mygt64(u64 a, u64 b) {
    return ( a > b );
}

static u64 mylt64(u64 a, u64 b) {
    return ( a < b );
}


// raw difference from left -> right, provided you're walking in direction left -> right
static u32 dif32(u32 left, u32 right) {
    u32 max32 = ((u32)~0U);
    if ( right > left ) {
        return ( right - left );
    }
    // left -> max -> right
    return (max32 - left) + right;
}

/* must handle integer wraparound*/
static u64 mymax64_wrap(u64 a, u64 b) {
    u32 a32 = (u32)a;
    u32 b32 = (u32)b;
    u32 left_to_right = dif32(a32, b32);
    u32 right_to_left = dif32(b32, a32);
    // 0 case
    if ( a == 0 ) {
        return b;
    }
    if ( b == 0 ) {
        return a;
    }
    // difference from b -> a is shorter than difference from a -> b: so order is (b,a)
    if ( right_to_left < left_to_right ) {
        return (u64)a32;
    }
    // else difference from a -> b is sorter than difference from b -> a: so order is (a,b)
    return (u64)b32;
}

static u64 mymax64(u64 a, u64 b) {
    if ( a > b ) {
        return a;
    }
    return b;
}

static u64 mymin64(u64 a, u64 b) {
    if ( a < b ) {
        return a;
    }
    return b;
}

static u64 mymul64(u64 a, u64 b) {
    return a*b;
}

static u64 mysub64(u64 a, u64 b) {
    return a - b;
}

/*
 * Read Operations from operation messages
 */
static int read_op(struct Instruction64* instr, u8 opcode) {
    if (opcode >= MAX_OP) {
        return LIBCCP_READ_INVALID_OP;
    }
    instr->op = opcode;
    return LIBCCP_OK;
}

/*
 * Deserialize registers sent down as u32
 * u32 is necessary for value as it could be an immediate register
 */
static int deserialize_register(struct Register *ret, u8 reg_type, u32 reg_value) {
    switch (reg_type) {
       case IMMEDIATE_REG: // immediate - store in value
            ret->type = (int)IMMEDIATE_REG;
            ret->value = (u64)reg_value;
            return 0;
        case NONVOLATILE_CONTROL_REG: // control register
            ret->type = (int)NONVOLATILE_CONTROL_REG;
            break;
        case VOLATILE_CONTROL_REG: // control register
            ret->type = (int)VOLATILE_CONTROL_REG;
            break;
        case IMPLICIT_REG: // implicit
            ret->type = (int)IMPLICIT_REG;
            break;
        case PRIMITIVE_REG: // primitive
            ret->type = (int)PRIMITIVE_REG;
            break;
        case VOLATILE_REPORT_REG: // output/permanent
            ret->type = (int)VOLATILE_REPORT_REG;
            break;
        case NONVOLATILE_REPORT_REG: // output/permanent
            ret->type = (int)NONVOLATILE_REPORT_REG;
            break;
        case TMP_REG: // temporary register
            ret->type = (int)TMP_REG;
            break;
        case LOCAL_REG: // local register
            ret->type = (int)LOCAL_REG;
            break;
        default:
            return -1;
    }

    ret->index = (int)reg_value;
    return 0;
}

/*
 * Write into specified registers
 * Only allowed to write into NONVOLATILE_REPORT_REG, VOLATILE_REPORT_REG, TMP_REG, LOCAL_REG
 * and some of the IMPL_REG: EXPR_FLAG_REG, CWND_REG, RATE_REG, SHOULD_REPORT_REG
 */
static void write_reg(struct ccp_datapath *datapath, struct ccp_priv_state *state, u64 value, struct Register reg) {
    switch (reg.type) {
        case NONVOLATILE_REPORT_REG:
        case VOLATILE_REPORT_REG:
            if (reg.index >= 0 && reg.index < MAX_REPORT_REG) {
                state->registers.report_registers[reg.index] = value;
            }
            break;
        case TMP_REG:
            if (reg.index >= 0 && reg.index < MAX_TMP_REG) {
                state->registers.tmp_registers[reg.index] = value;
            }
            break;
        case LOCAL_REG:
            if (reg.index >= 0 && reg.index < MAX_LOCAL_REG) {
                state->registers.local_registers[reg.index] = value;
            }
            break;
        case IMPLICIT_REG: // cannot write to US_ELAPSED reg
            if (reg.index == EXPR_FLAG_REG || reg.index == CWND_REG || reg.index == RATE_REG || reg.index == SHOULD_REPORT_REG || reg.index == SHOULD_FALLTHROUGH_REG ) {
                state->registers.impl_registers[reg.index] = value;
            } else if (reg.index == US_ELAPSED_REG) {
                // set micros register to this value, and datapath start time to be time before now
                state->implicit_time_zero = datapath->now() - value;
                state->registers.impl_registers[US_ELAPSED_REG] = value;
            }
            break;
        case VOLATILE_CONTROL_REG:
        case NONVOLATILE_CONTROL_REG:
            if (reg.index >= 0 && reg.index < MAX_CONTROL_REG) {
                state->registers.control_registers[reg.index] = value; 
            }
        default:
            break;
    }
}

/*
 * Read specified register
 */
static u64 read_reg(struct ccp_datapath *datapath, struct ccp_priv_state *state, struct ccp_primitives* primitives, struct Register reg) {
    switch (reg.type) {
        case IMMEDIATE_REG:
            return reg.value;
        case NONVOLATILE_REPORT_REG:
        case VOLATILE_REPORT_REG:
            return state->registers.report_registers[reg.index];
        case NONVOLATILE_CONTROL_REG:
        case VOLATILE_CONTROL_REG:
            return state->registers.control_registers[reg.index];
        case TMP_REG:
            return state->registers.tmp_registers[reg.index];
        case LOCAL_REG:
            return state->registers.local_registers[reg.index];
        case PRIMITIVE_REG:
            switch (reg.index) {
                case ACK_BYTES_ACKED:
                    return primitives->bytes_acked;
                case ACK_PACKETS_ACKED:
                    return primitives->packets_acked;
                case ACK_BYTES_MISORDERED:
                    return primitives->bytes_misordered;
                case ACK_PACKETS_MISORDERED:
                    return primitives->packets_misordered;
                case ACK_ECN_BYTES:
                    return primitives->ecn_bytes;
                case ACK_ECN_PACKETS:
                    return primitives->ecn_packets;
                case ACK_LOST_PKTS_SAMPLE:
                    return primitives->lost_pkts_sample;
                case FLOW_WAS_TIMEOUT:
                    return primitives->was_timeout;
                case FLOW_RTT_SAMPLE_US:
                    if (primitives->rtt_sample_us == 0) {
                        return ((u64)~0U);
                    } else {
                        return primitives->rtt_sample_us;
                    }
                case FLOW_RATE_OUTGOING:
                    return primitives->rate_outgoing;
                case FLOW_RATE_INCOMING:
                    return primitives->rate_incoming;
                case FLOW_BYTES_IN_FLIGHT:
                    return primitives->bytes_in_flight;
                case FLOW_PACKETS_IN_FLIGHT:
                    return primitives->packets_in_flight;
                case ACK_NOW:
                    return datapath->since_usecs(datapath->time_zero);
                case FLOW_BYTES_PENDING:
                    return primitives->bytes_pending;
                default:
                    return 0;
            }
            break;
        case IMPLICIT_REG:
            return state->registers.impl_registers[reg.index];
            break;
        default:
            return 0;
    }
}

/*
 * Process instruction at specfied index 
 */
static int process_instruction(struct ccp_datapath *datapath, struct DatapathProgram *program, int instr_index, struct ccp_priv_state *state, struct ccp_primitives* primitives) {
    //struct DatapathProgram* program = datapath_program_lookup(state->program_index);
    struct Instruction64 current_instruction = program->fold_instructions[instr_index];
    u64 arg0, arg1, arg2, result; // extra arg0 for ewma, if, not if

    arg1 = read_reg(datapath, state, primitives, current_instruction.rLeft);
    arg2 = read_reg(datapath, state, primitives, current_instruction.rRight);
    switch (current_instruction.op) {
        case ADD:
            libccp_trace("ADD  " FMT_U64 " + " FMT_U64 " = " FMT_U64 "\n", arg1, arg2, myadd64(arg1, arg2)); 
            result = myadd64(arg1, arg2);
            if (result < arg1) {
                libccp_warn("ERROR! Integer overflow: " FMT_U64 " + " FMT_U64 "\n", arg1, arg2);
                return LIBCCP_ADD_INT_OVERFLOW;
            }
            write_reg(datapath, state, result, current_instruction.rRet);
            break;
        case DIV:
            libccp_trace("DIV  " FMT_U64 " / " FMT_U64 " = ", arg1, arg2);
            if (arg2 == 0) {
                libccp_warn("ERROR! Attempt to divide by 0: " FMT_U64 " / " FMT_U64 "\n", arg1, arg2);
                return LIBCCP_DIV_BY_ZERO;
            } else {
                libccp_trace("" FMT_U64 "\n", mydiv64(arg1, arg2));
                write_reg(datapath, state, mydiv64(arg1, arg2), current_instruction.rRet);
            }
            break;
        case EQUIV:
            libccp_trace("EQV  " FMT_U64 " == " FMT_U64 " => " FMT_U64 "\n", arg1, arg2, myequiv64(arg1, arg2));
            write_reg(datapath, state, myequiv64(arg1, arg2), current_instruction.rRet);
            break;
        case EWMA: // arg0 = current, arg2 = new, arg1 = constant
            arg0 = read_reg(datapath, state, primitives, current_instruction.rRet); // current state
            write_reg(datapath, state, myewma64(arg1, arg0, arg2), current_instruction.rRet);
            break;
        case GT:
            libccp_trace("GT   " FMT_U64 " > " FMT_U64 " => " FMT_U64 "\n", arg1, arg2, mygt64(arg1, arg2));
            write_reg(datapath, state, mygt64(arg1, arg2), current_instruction.rRet);
            break;
        case LT:
            libccp_trace("LT   " FMT_U64 " > " FMT_U64 " => " FMT_U64 "\n", arg1, arg2, mylt64(arg1, arg2));
            write_reg(datapath, state, mylt64(arg1, arg2), current_instruction.rRet);
            break;
        case MAX:
            libccp_trace("MAX  " FMT_U64 " , " FMT_U64 " => " FMT_U64 "\n", arg1, arg2, mymax64(arg1, arg2));
            write_reg(datapath, state, mymax64(arg1, arg2), current_instruction.rRet);
            break;
        case MIN:
            libccp_trace("MIN  " FMT_U64 " , " FMT_U64 " => " FMT_U64 "\n", arg1, arg2, mymin64(arg1, arg2));
            write_reg(datapath, state, mymin64(arg1, arg2), current_instruction.rRet);
            break;
        case MUL:
            libccp_trace("MUL  " FMT_U64 " * " FMT_U64 " = " FMT_U64 "\n", arg1, arg2, mymul64(arg1, arg2));
            result = mymul64(arg1, arg2);
            if (result < arg1 && arg2 > 0) {
                libccp_error("ERROR! Integer overflow: " FMT_U64 " * " FMT_U64 "\n", arg1, arg2);
                return LIBCCP_MUL_INT_OVERFLOW;
            }
            write_reg(datapath, state, result, current_instruction.rRet);
            break;
        case SUB:
            libccp_trace("SUB  " FMT_U64 " - " FMT_U64 " = " FMT_U64 "\n", arg1, arg2, mysub64(arg1, arg2));
            result = mysub64(arg1, arg2);
            if (result > arg1) {
                libccp_error("ERROR! Integer underflow: " FMT_U64 " - " FMT_U64 "\n", arg1, arg2);
                return LIBCCP_SUB_INT_UNDERFLOW;
            }
            write_reg(datapath, state, result, current_instruction.rRet);
            break;
        case MAXWRAP:
            libccp_trace("MAXW " FMT_U64 " , " FMT_U64 " => " FMT_U64 "\n", arg1, arg2, mymax64_wrap(arg1, arg2));
            write_reg(datapath, state, mymax64_wrap(arg1, arg2), current_instruction.rRet);
            break;
        case IF: // if arg1 (rLeft), stores rRight in rRet
            libccp_trace("IF   " FMT_U64 " : r" FMT_U64 " -> r" FMT_U64 "\n", arg1, arg2, current_instruction.rRet.value);
            if (arg1) {
                write_reg(datapath, state, arg2, current_instruction.rRet);
            }
            break;
        case NOTIF:
            libccp_trace("!IF  " FMT_U64 " : r" FMT_U64 " -> r" FMT_U64 "\n", arg1, arg2, current_instruction.rRet.value);
            if (arg1 == 0) {
                write_reg(datapath, state, arg2, current_instruction.rRet);
            }
            break;
        case BIND: // take arg2, and put it in rRet
            libccp_trace("BIND r%d: " FMT_U64 " -> " FMT_U64 "\n", current_instruction.rRet.index, current_instruction.rRet.value, arg2);
            write_reg(datapath, state, arg2, current_instruction.rRet);
            break;
        default:
            libccp_debug("UNKNOWN OP %d\n", current_instruction.op);
            break;
    }
    return LIBCCP_OK;

}

/*
 * Process a single event - check if condition is true, and execute event body if so
 */
static int process_expression(struct ccp_datapath *datapath, struct DatapathProgram *program, int expr_index, struct ccp_priv_state *state, struct ccp_primitives* primitives) {
    //struct DatapathProgram* program = datapath_program_lookup(state->program_index);
    struct Expression *expression = &(program->expressions[expr_index]);
    u8 idx;
    int ret;
    libccp_trace("when #%d {\n", expr_index);
    for (idx=expression->cond_start_idx; idx<(expression->cond_start_idx + expression->num_cond_instrs); idx++) {
       ret = process_instruction(datapath, program, idx, state, primitives);
       if (ret < 0) {
         return ret;
       }
    }
    libccp_trace("} => " FMT_U64 "\n", state->registers.impl_registers[EXPR_FLAG_REG]);

    // flag from event is promised to be stored in this implicit register
    if (state->registers.impl_registers[EXPR_FLAG_REG] ) {
        for (idx = expression->event_start_idx; idx<(expression->event_start_idx + expression->num_event_instrs ); idx++) {
            ret = process_instruction(datapath, program, idx, state, primitives);
            if (ret < 0) {
                return ret;
            }
        }
    }

    return LIBCCP_OK;
}

/*
 * Read instructions into an instruction struct
 */
int read_instruction(
    struct Instruction64 *instr,
    struct InstructionMsg *msg
) {
    int reg;
    reg = read_op(instr, msg->opcode);
    if (reg < 0) {
        return reg;
    }
    
    // check if the reg type is IMMEDIATE or PRIMITIVE
    if (msg->result_reg_type == IMMEDIATE_REG || msg->result_reg_type == PRIMITIVE_REG) {
        return LIBCCP_READ_REG_NOT_ALLOWED;
    }

    reg = deserialize_register(&instr->rRet, msg->result_reg_type, msg->result_register);
    if (reg < 0) {
        return LIBCCP_READ_INVALID_RETURN_REG;
    }

    reg = deserialize_register(&instr->rLeft, msg->left_reg_type, msg->left_register);
    if (reg < 0) {
        return LIBCCP_READ_INVALID_LEFT_REG;
    }

    reg = deserialize_register(&instr->rRight, msg->right_reg_type, msg->right_register);
    if (reg < 0) {
        return LIBCCP_READ_INVALID_RIGHT_REG;
    }

    return reg;
}

/*
 * Read expression msg into expression struct
 */
int read_expression(
    struct Expression *expr,
    struct ExpressionMsg *msg
) {
    expr->cond_start_idx = msg->cond_start_idx;
    expr->num_cond_instrs = msg->num_cond_instrs;
    expr->event_start_idx = msg->event_start_idx;
    expr->num_event_instrs = msg->num_event_instrs;
    return LIBCCP_OK;
}

/*
 * Resets all permanent registers to the DEF values
 */
void reset_state(struct ccp_datapath *datapath, struct ccp_priv_state *state) {
    u8 i;
    struct DatapathProgram* program = datapath_program_lookup(datapath, state->program_index);
    if (program == NULL) {
        libccp_info("Cannot reset state because program is NULL\n");
        return;
    }
    struct Instruction64 current_instruction;
    u8 num_to_return = 0;

    // go through all the DEF instructions, and reset all VOLATILE_REPORT_REG variables
    for (i = 0; i < program->num_instructions; i++) {
        current_instruction = program->fold_instructions[i];
        switch (current_instruction.op) {
            case DEF:
                // This only applies to REPORT_REG and volatile CONTROL_REG.
                if (current_instruction.rLeft.type != NONVOLATILE_REPORT_REG && 
                    current_instruction.rLeft.type != VOLATILE_REPORT_REG && 
                    current_instruction.rLeft.type != VOLATILE_CONTROL_REG) {
                    continue;
                }
                
                // We report both NONVOLATILE_REPORT_REG and VOLATILE_REPORT_REG.
                if (current_instruction.rLeft.type != VOLATILE_CONTROL_REG) {
                    num_to_return += 1;
                }

                // We don't reset NONVOLATILE_REPORT_REG
                if (current_instruction.rLeft.type == NONVOLATILE_REPORT_REG) {
                    continue;
                }

                // set the default value of the state register
                // check for infinity
                if (current_instruction.rRight.value == (0x3fffffff)) {
                    write_reg(datapath, state, ((u64)~0U), current_instruction.rLeft);
                } else {
                    write_reg(datapath, state, current_instruction.rRight.value, current_instruction.rLeft);
                }
                break;
            default:
                // DEF instructions are only at the beginnning
                // Once we see a non-DEF, can stop.
                program->num_to_return = num_to_return;
                return; 
        }
    }    
}

void init_register_state(struct ccp_datapath *datapath, struct ccp_priv_state *state) {
    u8 i;
    struct Instruction64 current_instruction;
    struct DatapathProgram* program = datapath_program_lookup(datapath, state->program_index);
    if (program == NULL) {
        libccp_info("Cannot init register state because program is NULL\n");
        return;
    }

    // go through all the DEF instructions, and reset all nonvolatile CONTROL_REG and REPORT_REG variables
    for (i = 0; i < program->num_instructions; i++) {
        current_instruction = program->fold_instructions[i];
        switch (current_instruction.op) {
            case DEF:
                if (current_instruction.rLeft.type != NONVOLATILE_CONTROL_REG && current_instruction.rLeft.type != NONVOLATILE_REPORT_REG) {
                    continue;
                }
                // set the default value of the state register
                // check for infinity
                if (current_instruction.rRight.value == (0x3fffffff)) {
                    write_reg(datapath, state, ((u64)~0U), current_instruction.rLeft);
                } else {
                    write_reg(datapath, state, current_instruction.rRight.value, current_instruction.rLeft);
                }
                break;
            default:
                return; 
        }
    }    
}

/*
 * Resets implicit registers associated with US_ELAPSED
 */
void reset_time(struct ccp_datapath *datapath, struct ccp_priv_state *state) {
    // reset the ns elapsed register to register now as 0
    state->implicit_time_zero = datapath->now();
    state->registers.impl_registers[US_ELAPSED_REG] = 0;
}

/*
 * Before state machine, reset  some of the implicit registers
 */
static __INLINE__ void reset_impl_registers(struct ccp_priv_state *state) {
    state->registers.impl_registers[EXPR_FLAG_REG] = 0;
    state->registers.impl_registers[SHOULD_FALLTHROUGH_REG] = 0;
    state->registers.impl_registers[SHOULD_REPORT_REG] = 0;
}

/*
 * Called from ccp_invoke
 * Evaluates all the current expressions
 */
int state_machine(struct ccp_connection *conn) {
    struct ccp_priv_state *state = get_ccp_priv_state(conn);
    struct ccp_datapath *datapath = conn->datapath;
    if (state == NULL) {
        libccp_warn("CCP priv state is null");
        return LIBCCP_PRIV_IS_NULL;
    }
    struct DatapathProgram* program = datapath_program_lookup(conn->datapath, state->program_index);
    if (program == NULL) {
        libccp_warn("Datapath program is null");
        return LIBCCP_PROG_IS_NULL;
    }
    struct ccp_primitives* primitives = &conn->prims;
    u32 i;
    int ret;
    u64 implicit_now;
    
    // reset should Report, should fall through, and event expression
    reset_impl_registers(state);

    // update the US_ELAPSED registers
    implicit_now = datapath->since_usecs(state->implicit_time_zero);
    state->registers.impl_registers[US_ELAPSED_REG] = implicit_now;
    
    libccp_trace(">>> program starting [sid=%d] <<<\n", conn->index);
    // cycle through expressions, and process instructions
    for (i=0; i < program->num_expressions; i++) {
        ret = process_expression(datapath, program, i, state, primitives);
        if (ret < 0) {
            libccp_trace(">>> program finished [sid=%d] [ret=-1] <<<\n\n", conn->index);
            return ret;
        }

        // break if the expression is true and fall through is NOT true
        if ((state->registers.impl_registers[EXPR_FLAG_REG]) && !(state->registers.impl_registers[SHOULD_FALLTHROUGH_REG])) {
            break;
        }
        libccp_trace("[sid=%d] fallthrough...\n", conn->index);
    }
    // set rate and cwnd from implicit registers
    if (state->registers.impl_registers[CWND_REG] > 0) {
        libccp_debug("[sid=%d] setting cwnd after program: " FMT_U64 "\n", conn->index, state->registers.impl_registers[CWND_REG]);
        datapath->set_cwnd(conn, state->registers.impl_registers[CWND_REG]);
    }

    if (state->registers.impl_registers[RATE_REG] != 0) {
        libccp_debug("[sid=%d] setting rate after program: " FMT_U64 "\n", conn->index, state->registers.impl_registers[CWND_REG]);
        datapath->set_rate_abs(conn, state->registers.impl_registers[RATE_REG]);
    }

    // if we should report, report and reset state
    if (state->registers.impl_registers[SHOULD_REPORT_REG]) {
        send_measurement(conn, program->program_uid, state->registers.report_registers, program->num_to_return);
        reset_state(conn->datapath, state);
    }

    libccp_trace(">>> program finished [sid=%d] [ret=0] <<<\n\n", conn->index);
    return LIBCCP_OK;
}
