#include "serialize.h"
#include "ccp.h"
#include "ccp_priv.h"
#include "ccp_error.h"

#ifdef __KERNEL__
#include <linux/types.h>
#include <linux/string.h> // memcpy
#include <linux/slab.h> // kmalloc
#else
#include <ctype.h>
#include <stdio.h>
#include <stdlib.h>
#include <string.h>
#endif

/* (type, len, socket_id) header
 * -----------------------------------
 * | Msg Type | Len (2B) | Uint32    |
 * | (2 B)    | (2 B)    | (32 bits) |
 * -----------------------------------
 * total: 6 Bytes
 */

/* We only read Install, Update, and Change Program messages.
 */
int read_header(struct CcpMsgHeader *hdr, char *buf) {
    memcpy(hdr, buf, sizeof(struct CcpMsgHeader));

    switch (hdr->Type) {
    case INSTALL_EXPR:
        return sizeof(struct CcpMsgHeader);
    case UPDATE_FIELDS:
        return sizeof(struct CcpMsgHeader);
    case CHANGE_PROG:
        return sizeof(struct CcpMsgHeader);
    default:
        return LIBCCP_READ_INVALID_HEADER_TYPE;
    }
}

/* We only write Create, Ready, and Measure messages.
 */
int serialize_header(char *buf, int bufsize, struct CcpMsgHeader *hdr) {
    switch (hdr->Type) {
    case CREATE:
    case MEASURE:
    case READY:
        break;
    default:
        return LIBCCP_WRITE_INVALID_HEADER_TYPE;
    }

    if (bufsize < ((int)sizeof(struct CcpMsgHeader))) {
        return LIBCCP_BUFSIZE_TOO_SMALL;
    }

    memcpy(buf, hdr, sizeof(struct CcpMsgHeader));
    return sizeof(struct CcpMsgHeader);
}

int write_ready_msg(
    char *buf,
    int bufsize,
    u32 id
) {
    struct CcpMsgHeader hdr;
    int ret;
    u16 msg_len = sizeof(struct CcpMsgHeader) + sizeof(u32);

    hdr = (struct CcpMsgHeader) {
        .Type = READY,
        .Len = msg_len,
        .SocketId = 0
    };

    if (bufsize < 0) {
        return LIBCCP_BUFSIZE_NEGATIVE;
    }

    if (((u32) bufsize) < hdr.Len) {
        return LIBCCP_BUFSIZE_TOO_SMALL;
    }

    ret = serialize_header(buf, bufsize, &hdr);
    if (ret < 0) {
        return ret;
    }

    buf += ret;
    memcpy(buf, &id, sizeof(u32));
    return hdr.Len;
}

int write_create_msg(
    char *buf, 
    int bufsize,
    u32 sid, 
    struct CreateMsg cr
) {
    struct CcpMsgHeader hdr;
    int ret;
    u16 msg_len = sizeof(struct CcpMsgHeader) + sizeof(struct CreateMsg);
    
    hdr = (struct CcpMsgHeader){
        .Type = CREATE, 
        .Len = msg_len,
        .SocketId = sid,
    };

    if (bufsize < 0) {
        return LIBCCP_BUFSIZE_NEGATIVE;
    }
    
    if (((u32) bufsize) < hdr.Len) {
        return LIBCCP_BUFSIZE_TOO_SMALL;
    }
    
    ret = serialize_header(buf, bufsize, &hdr);
    if (ret < 0) {
        return ret;
    }

    buf += ret;
    memcpy(buf, &cr, hdr.Len - sizeof(struct CcpMsgHeader));
    return hdr.Len;
}

int write_measure_msg(
    char *buf,
    int bufsize,
    u32 sid, 
    u32 program_uid,
    u64 *msg_fields,
    u8 num_fields
) {
    int ret;
    struct MeasureMsg ms = {
        .program_uid = program_uid,
        .num_fields = num_fields,
    };
    
    // 4 bytes for num_fields (u32) and 4 for program_uid = 8
    u16 msg_len = sizeof(struct CcpMsgHeader) + 8 + ms.num_fields * sizeof(u64);
    struct CcpMsgHeader hdr = {
        .Type = MEASURE, 
        .Len = msg_len,
        .SocketId = sid,
    };
    
    // copy message fields into MeasureMsg struct
    if (msg_fields) {
      memcpy(ms.fields, msg_fields, ms.num_fields * sizeof(u64));
    }

    if (bufsize < 0) {
        return LIBCCP_BUFSIZE_NEGATIVE;
    }

    if (((u32) bufsize) < hdr.Len) {
        return LIBCCP_BUFSIZE_TOO_SMALL;
    }

    ret = serialize_header(buf, bufsize, &hdr);
    if (ret < 0) {
        return ret;
    }

    buf += ret;
    memcpy(buf, &ms, hdr.Len - sizeof(struct CcpMsgHeader));
    return hdr.Len;
}

int read_install_expr_msg_hdr(
    struct ccp_datapath *datapath,
    struct CcpMsgHeader *hdr,
    struct InstallExpressionMsgHdr *expr_msg_info,
    char *buf
) {
    if (hdr->Type != INSTALL_EXPR) {
        return LIBCCP_INSTALL_TYPE_MISMATCH;
    } 

    if (expr_msg_info->num_expressions > MAX_EXPRESSIONS) {
        libccp_warn("Program to install has too many expressions: %u\n", expr_msg_info->num_expressions);
        return LIBCCP_INSTALL_TOO_MANY_EXPR;
    }

    if (expr_msg_info->num_instructions > MAX_INSTRUCTIONS) {
        libccp_warn("Program to install has too many instructions: %u\n", expr_msg_info->num_instructions);
        return LIBCCP_INSTALL_TOO_MANY_INSTR;
    }
    memcpy(expr_msg_info, buf, sizeof(struct InstallExpressionMsgHdr));
    return sizeof(struct InstallExpressionMsgHdr);

}

int check_update_fields_msg(
    struct ccp_datapath *datapath,
    struct CcpMsgHeader *hdr,
    u32 *num_updates,
    char *buf
) {
    if (hdr->Type != UPDATE_FIELDS) {
        libccp_warn("check_update_fields_msg: hdr.Type != UPDATE_FIELDS")
        return LIBCCP_UPDATE_TYPE_MISMATCH;
    }

    *num_updates = (u32)*buf;
    if (*num_updates > MAX_MUTABLE_REG) {
        libccp_warn("Too many updates!: %u\n", *num_updates);
        return LIBCCP_UPDATE_TOO_MANY;
    }
    return sizeof(u32);
}

int read_change_prog_msg(
    struct ccp_datapath *datapath,
    struct CcpMsgHeader *hdr,
    struct ChangeProgMsg *change_prog,
    char *buf
) {
    if (hdr->Type != CHANGE_PROG) {
        libccp_warn("read_change_prog_msg: hdr.Type != CHANGE_PROG")
        return LIBCCP_CHANGE_TYPE_MISMATCH;
    }

    memcpy(change_prog, buf, sizeof(struct ChangeProgMsg));
    if (change_prog->num_updates > MAX_MUTABLE_REG) {
        libccp_warn("Too many updates sent with change prog: %u\n", change_prog->num_updates);
        return LIBCCP_CHANGE_TOO_MANY;
    }
    return sizeof(struct ChangeProgMsg);
}
