#include "ccp_priv.h"

#ifdef __KERNEL__
#include <linux/slab.h> // kmalloc
#include <linux/string.h> // memcpy,memset
#else
#include <stdlib.h>
#include <string.h>
#endif

int init_ccp_priv_state(struct ccp_datapath *datapath, struct ccp_connection *conn) {
    struct ccp_priv_state *state;

    conn->state = __CALLOC__(1, sizeof(struct ccp_priv_state));
    state = (struct ccp_priv_state*) conn->state;

    state->sent_create = false;
    state->implicit_time_zero = datapath->time_zero;
    state->program_index = 0;
    state->staged_program_index = -1;

    conn->datapath = datapath;

    return 0;
}

void free_ccp_priv_state(struct ccp_connection *conn) {
    struct ccp_priv_state *state = get_ccp_priv_state(conn);
    __FREE__(state);
}

__INLINE__ struct ccp_priv_state* get_ccp_priv_state(struct ccp_connection *conn) {
    return (struct ccp_priv_state*) conn->state;
}

// lookup datapath program using program ID
// returns  NULL on error
struct DatapathProgram* datapath_program_lookup(struct ccp_datapath *datapath, u16 pid) {
    struct DatapathProgram *prog;
    struct DatapathProgram *programs = (struct DatapathProgram*) datapath->programs;

    // bounds check
    if (pid == 0) {
        libccp_warn("no datapath program set\n");
        return NULL;
    } else if (pid > datapath->max_programs) {
        libccp_warn("program index out of bounds: %d\n", pid);
        return NULL;
    }

    prog = &programs[pid-1];
    if (prog->index != pid) {
        libccp_warn("index mismatch: pid %d, index %d", pid, prog->index);
        return NULL;
    }

    return prog;

}
