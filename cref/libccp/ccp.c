#include "ccp_priv.h"
#include "ccp_error.h"

#ifdef __KERNEL__
#include <linux/types.h>
#include <linux/string.h> // memcpy
#include <linux/slab.h> // kmalloc
#else
#include <stdio.h>
#include <stdlib.h>
#include <string.h>
#endif

#define CREATE_TIMEOUT_US 100000 // 100 ms

/* CCP Datapath Connection Map
 *
 * When we receive a message from userspace CCP, we are not
 * in the flow context and need to access state (e.g. primitives) for
 * the appropriate connection.
 *
 * So, we maintain a map of ccp sock_id -> flow state information.
 * This flow state information is the API that datapaths must implement to support CCP.
 */

/* Drop log messages if no log output is defined.
 */
void __INLINE__ null_log(struct ccp_datapath *dp, enum ccp_log_level level, const char* msg, int msg_size) {
    (void)(dp);
    (void)(level);
    (void)(msg);
    (void)(msg_size);
}

int ccp_init(struct ccp_datapath *datapath, u32 id) {
    int ok;
    char ready_msg[READY_MSG_SIZE];
    libccp_trace("ccp_init");
    if (
        datapath                         ==  NULL  ||
        datapath->set_cwnd               ==  NULL  ||
        datapath->set_rate_abs           ==  NULL  ||
        datapath->send_msg               ==  NULL  ||
        datapath->now                    ==  NULL  ||
        datapath->since_usecs            ==  NULL  ||
        datapath->after_usecs            ==  NULL  ||
        datapath->ccp_active_connections ==  NULL  ||
        datapath->max_connections        ==  0     ||
        datapath->max_programs           ==  0     ||
        datapath->fto_us                 ==  0
    ) {
        return LIBCCP_MISSING_ARG;
    }

    if (datapath->log == NULL) {
        datapath->log = &null_log;
    }

    // send ready message
    ok = write_ready_msg(ready_msg, READY_MSG_SIZE, id);
    if (ok < 0) {
        libccp_error("could not serialize ready message")
        return ok;
    }

    ok = datapath->send_msg(datapath, ready_msg, READY_MSG_SIZE);
    if (ok < 0) {
        libccp_warn("could not send ready message: %d", ok)
    }

    libccp_trace("wrote ready msg")
    datapath->programs = __CALLOC__(datapath->max_programs, sizeof(struct DatapathProgram));
    datapath->time_zero = datapath->now();
    datapath->last_msg_sent = 0;
    datapath->_in_fallback = false;
    return LIBCCP_OK;
}

void ccp_free(struct ccp_datapath *datapath) {
  __FREE__(datapath->programs);
}

void ccp_conn_create_success(struct ccp_priv_state *state) {
    state->sent_create = true;
}

struct ccp_connection *ccp_connection_start(struct ccp_datapath *datapath, void *impl, struct ccp_datapath_info *flow_info) {
    int ret;
    u16 sid;
    struct ccp_connection *conn;

    // scan to find empty place
    // index = 0 means free/unused
    for (sid = 0; sid < datapath->max_connections; sid++) {
        conn = &datapath->ccp_active_connections[sid];
        if (CAS(&(conn->index), 0, sid+1)) {
            break;
        }
    }
    
    if (sid >= datapath->max_connections) {
        return NULL;
    }

    conn->impl = impl;
    memcpy(&conn->flow_info, flow_info, sizeof(struct ccp_datapath_info));

    init_ccp_priv_state(datapath, conn);

    // send to CCP:
    // index of pointer back to this sock for IPC callback
    ret = send_conn_create(datapath, conn);
    if (ret < 0) {
        if (!datapath->_in_fallback) {
            libccp_warn("failed to send create message: %d\n", ret);
        }
        return conn;
    }

    struct ccp_priv_state *state = get_ccp_priv_state(conn);
    ccp_conn_create_success(state);

    return conn;
}

__INLINE__ void *ccp_get_impl(struct ccp_connection *conn) {
    return conn->impl;
}

__INLINE__ void ccp_set_impl(struct ccp_connection *conn, void *ptr) {
    conn->impl = ptr;
}

int ccp_invoke(struct ccp_connection *conn) {
    int i;
    int ret = 0;
    struct ccp_priv_state *state;
    struct ccp_datapath *datapath;

    if (conn == NULL) {
        return LIBCCP_NULL_ARG;
    }

    datapath = conn->datapath;

    if (_check_fto(datapath)) {
        return LIBCCP_FALLBACK_TIMED_OUT;
    }

    state = get_ccp_priv_state(conn);

    if (!(state->sent_create)) {
        // try contacting the CCP again
        // index of pointer back to this sock for IPC callback
        libccp_trace("%s retx create message\n", __FUNCTION__);
        ret = send_conn_create(datapath, conn);
        if (ret < 0) {
            if (!datapath->_in_fallback) {
                libccp_warn("failed to retx create message: %d\n", ret);
            }
        } else {
            ccp_conn_create_success(state);
        }

        // TODO should we really be returning here? shouldn't we just keep going?
        return LIBCCP_OK;
    }

    // set cwnd and rate registers to what they are in the datapath
    libccp_trace("primitives (cwnd, rate): (" FMT_U32 ", " FMT_U64 ")\n", conn->prims.snd_cwnd, conn->prims.snd_rate);
    state->registers.impl_registers[CWND_REG] = (u64)conn->prims.snd_cwnd;
    state->registers.impl_registers[RATE_REG] = (u64)conn->prims.snd_rate;
    
    if (state->staged_program_index >= 0) {
        // change the program to this program, and reset the state
        libccp_debug("[sid=%d] Applying staged program change: %d -> %d\n", conn->index, state->program_index, state->staged_program_index); 
        state->program_index = state->staged_program_index;
        reset_state(conn->datapath, state);
        init_register_state(conn->datapath, state);
        reset_time(conn->datapath, state);
        state->staged_program_index = -1;
    }

    for (i = 0; i < MAX_CONTROL_REG; i++) {
        if (state->pending_update.control_is_pending[i]) {
            libccp_debug("[sid=%d] Applying staged field update: control reg %u (" FMT_U64 "->" FMT_U64 ") \n", 
                conn->index, i,
                state->registers.control_registers[i],
                state->pending_update.control_registers[i]
            );
            state->registers.control_registers[i] = state->pending_update.control_registers[i];
        }
    }

    if (state->pending_update.impl_is_pending[CWND_REG]) {
        libccp_debug("[sid=%d] Applying staged field update: cwnd reg <- " FMT_U64 "\n", conn->index, state->pending_update.impl_registers[CWND_REG]);
        state->registers.impl_registers[CWND_REG] = state->pending_update.impl_registers[CWND_REG];
        if (state->registers.impl_registers[CWND_REG] != 0) {
            conn->datapath->set_cwnd(conn, state->registers.impl_registers[CWND_REG]);
        }
    }

    if (state->pending_update.impl_is_pending[RATE_REG]) {
        libccp_debug("[sid=%d] Applying staged field update: rate reg <- " FMT_U64 "\n", conn->index, state->pending_update.impl_registers[RATE_REG]);
        state->registers.impl_registers[RATE_REG] = state->pending_update.impl_registers[RATE_REG];
        if (state->registers.impl_registers[RATE_REG] != 0) {
            conn->datapath->set_rate_abs(conn, state->registers.impl_registers[RATE_REG]);
        }
    }

    memset(&state->pending_update, 0, sizeof(struct staged_update));
    
    ret = state_machine(conn);
    if (!ret) {
        return ret;
    }

    return ret;
}

// lookup existing connection by its ccp socket id
// return NULL on error
struct ccp_connection *ccp_connection_lookup(struct ccp_datapath *datapath, u16 sid) {
    struct ccp_connection *conn;
    // bounds check
    if (sid == 0 || sid > datapath->max_connections) {
        libccp_warn("index out of bounds: %d", sid);
        return NULL;
    }

    conn = &datapath->ccp_active_connections[sid-1];
    if (conn->index != sid) {
        libccp_trace("index mismatch: sid %d, index %d", sid, conn->index);
        return NULL;
    }

    return conn;
}

// after connection ends, free its slot in the ccp table
// also free slot in ccp instruction table
void ccp_connection_free(struct ccp_datapath *datapath, u16 sid) {
    int msg_size, ret;
    struct ccp_connection *conn;
    char msg[REPORT_MSG_SIZE];

    libccp_trace("Entering %s\n", __FUNCTION__);
    // bounds check
    if (sid == 0 || sid > datapath->max_connections) {
        libccp_warn("index out of bounds: %d", sid);
        return;
    }

    conn = &datapath->ccp_active_connections[sid-1];
    if (conn->index != sid) {
        libccp_warn("index mismatch: sid %d, index %d", sid, conn->index);
        return;
    }

    free_ccp_priv_state(conn);

    msg_size = write_measure_msg(msg, REPORT_MSG_SIZE, sid, 0, 0, 0);
    ret = datapath->send_msg(datapath, msg, msg_size);
    if (ret < 0) {
        if (!datapath->_in_fallback)  {
            libccp_warn("error sending close message: %d", ret);
        }
    }
    
    // ccp_connection_start will look for an array entry with index 0
    // to indicate that it's available for a new flow's information.
    // So, we set index to 0 here to reuse the memory.
    conn->index = 0;
    return;
}

// scan through datapath program table for the program with this UID
int datapath_program_lookup_uid(struct ccp_datapath *datapath, u32 program_uid) {
    size_t i;
    struct DatapathProgram *prog;
    struct DatapathProgram *programs = (struct DatapathProgram*) datapath->programs;
    
    for (i=0; i < datapath->max_programs; i++) {
        prog = &programs[i];
        if (prog->index == 0) {
            continue;
        }
        if (prog->program_uid == program_uid) {
            return (int)(prog->index);
        }
    }
    return LIBCCP_PROG_NOT_FOUND;
}

// saves a new datapath program into the array of datapath programs
// returns index into datapath program array where this program is stored
// if there is no more space, returns -1
int datapath_program_install(struct ccp_datapath *datapath, struct InstallExpressionMsgHdr* install_expr_msg, char* buf) {
    int i;
    int ret;
    u16 pid;
    char* msg_ptr; // for reading from char* buf
    struct InstructionMsg* current_instr;
    struct DatapathProgram* program;
    struct DatapathProgram *programs = (struct DatapathProgram*) datapath->programs;

    msg_ptr = buf;
    for (pid = 0; pid < datapath->max_programs; pid++) {
        program = &programs[pid];
        if (program->index == 0) {
            // found a free slot
            program->index = pid + 1;
            pid = pid + 1;
            break;
        }
    }
    if (pid >= datapath->max_programs) {
        libccp_warn("unable to install new program, table is full")
        return LIBCCP_PROG_TABLE_FULL;
    }

    // copy into the program
    program->index = pid;
    program->program_uid = install_expr_msg->program_uid;
    program->num_expressions = install_expr_msg->num_expressions;
    program->num_instructions = install_expr_msg->num_instructions;
    libccp_trace("Trying to install new program with (uid=%d) with %d expressions and %d instructions\n", program->program_uid, program->num_expressions, program->num_instructions);

    memcpy(program->expressions, msg_ptr, program->num_expressions * sizeof(struct ExpressionMsg));
    msg_ptr += program->num_expressions * sizeof(struct ExpressionMsg);

    // parse individual instructions
    for (i=0; i < (int)(program->num_instructions); i++) {
        current_instr = (struct InstructionMsg*)(msg_ptr);
        ret = read_instruction(&(program->fold_instructions[i]), current_instr);
        if (ret < 0) {
            libccp_warn("Could not read instruction # %d: %d in program with uid %u\n", i, ret, program->program_uid);
            return ret;
        }
        msg_ptr += sizeof(struct InstructionMsg);
    }

    libccp_debug("installed new program (uid=%d) with %d expressions and %d instructions\n", program->program_uid, program->num_expressions, program->num_instructions);

    return 0;

}

int stage_update(struct ccp_datapath *datapath __attribute__((unused)), struct staged_update *pending_update, struct UpdateField *update_field) {
    // update the value for these registers
    // for cwnd, rate; update field in datapath
    switch(update_field->reg_type) {
        case NONVOLATILE_CONTROL_REG:
        case VOLATILE_CONTROL_REG:
            // set new value
            libccp_trace(("%s: control " FMT_U32 " <- " FMT_U64 "\n"), __FUNCTION__, update_field->reg_index, update_field->new_value);
            pending_update->control_registers[update_field->reg_index] = update_field->new_value;
            pending_update->control_is_pending[update_field->reg_index] = true;
            return LIBCCP_OK;
        case IMPLICIT_REG:
            if (update_field->reg_index == CWND_REG) {
                libccp_trace("%s: cwnd <- " FMT_U64 "\n", __FUNCTION__, update_field->new_value);
                pending_update->impl_registers[CWND_REG] = update_field->new_value;
                pending_update->impl_is_pending[CWND_REG] = true;
            } else if (update_field->reg_index == RATE_REG) {
                libccp_trace("%s: rate <- " FMT_U64 "\n", __FUNCTION__, update_field->new_value);
                pending_update->impl_registers[RATE_REG] = update_field->new_value;
                pending_update->impl_is_pending[RATE_REG] = true;
            }
            return LIBCCP_OK;
        default:
            return LIBCCP_UPDATE_INVALID_REG_TYPE; // allowed only for CONTROL and CWND and RATE reg within CONTROL_REG
    }
}

int stage_multiple_updates(struct ccp_datapath *datapath, struct staged_update *pending_update, size_t num_updates, struct UpdateField *msg_ptr) {
    int ret;
    for (size_t i = 0; i < num_updates; i++) {
        ret = stage_update(datapath, pending_update, msg_ptr);
        if (ret < 0) {
            return ret;
        }

        msg_ptr++;
    }

    return LIBCCP_OK;
}

int ccp_read_msg(
    struct ccp_datapath *datapath,
    char *buf,
    int bufsize
) {
    int ret;
    int msg_program_index;
    u32 num_updates;
    char* msg_ptr;
    struct CcpMsgHeader hdr;
    struct ccp_connection *conn;
    struct ccp_priv_state *state;
    struct InstallExpressionMsgHdr expr_msg_info;
    struct ChangeProgMsg change_program;
    if (datapath->programs == NULL) {
        libccp_warn("datapath program state not initialized\n");
        return LIBCCP_PROG_IS_NULL;
    }

    ret = read_header(&hdr, buf);
    if (ret < 0) {
        libccp_warn("read header failed: %d", ret);
        return ret;
    }

    if (bufsize < 0) {
        libccp_warn("negative bufsize: %d", bufsize);
        return LIBCCP_BUFSIZE_NEGATIVE;
    }
    if (hdr.Len > ((u32) bufsize)) {
        libccp_warn("message size wrong: %u > %d\n", hdr.Len, bufsize);
        return LIBCCP_BUFSIZE_TOO_SMALL;
    }

    if (hdr.Len > BIGGEST_MSG_SIZE) {
        libccp_warn("message too long: %u > %d\n", hdr.Len, BIGGEST_MSG_SIZE);
        return LIBCCP_MSG_TOO_LONG;
    }
    msg_ptr = buf + ret;


    _turn_off_fto_timer(datapath);

    // INSTALL_EXPR message is for all flows, not a specific connection
    // sock_id in this message should be disregarded (could be before any flows begin)
    if (hdr.Type == INSTALL_EXPR) {
        libccp_trace("Received install message\n");
        memset(&expr_msg_info, 0, sizeof(struct InstallExpressionMsgHdr));
        ret = read_install_expr_msg_hdr(datapath, &hdr, &expr_msg_info, msg_ptr);
        if (ret < 0) {
            libccp_warn("could not read install expression msg header: %d\n", ret);
            return ret;
        }
        // clear the datapath programs
        // TODO: implement a system for which each ccp process has an ID corresponding to its programs
        // as all programs are sent down separately, right now we check if its a new portus starting
        // by checking if the ID of the program is 0
        // TODO: remove this hack
        if (expr_msg_info.program_uid == 1) {
            memset(datapath->programs, 0, datapath->max_programs * sizeof(struct DatapathProgram));
        }

        msg_ptr += ret;
        ret = datapath_program_install(datapath, &expr_msg_info, msg_ptr);
        if ( ret < 0 ) {
            libccp_warn("could not install datapath program: %d\n", ret);
            return ret;
        }
        return LIBCCP_OK; // installed program successfully
    }

    // rest of the messages must be for a specific flow
    conn = ccp_connection_lookup(datapath, hdr.SocketId);
    if (conn == NULL) {
        libccp_trace("unknown connection: %u\n", hdr.SocketId);
        return LIBCCP_UNKNOWN_CONNECTION;
    }
    state = get_ccp_priv_state(conn);

    if (hdr.Type == UPDATE_FIELDS) {
        libccp_debug("[sid=%d] Received update_fields message\n", conn->index);
        ret = check_update_fields_msg(datapath, &hdr, &num_updates, msg_ptr);
        msg_ptr += ret;
        if (ret < 0) {
            libccp_warn("Update fields message failed: %d\n", ret);
            return ret;
        }

        ret = stage_multiple_updates(datapath, &state->pending_update, num_updates, (struct UpdateField*) msg_ptr);
        if (ret < 0) {
            libccp_warn("update_fields: failed to stage updates: %d\n", ret);
            return ret;
        }

        libccp_debug("Staged %u updates\n", num_updates);
    } else if (hdr.Type == CHANGE_PROG) {
        libccp_debug("[sid=%d] Received change_prog message\n", conn->index);
        // check if the program is in the program_table
        ret = read_change_prog_msg(datapath, &hdr, &change_program, msg_ptr);
        if (ret < 0) {
            libccp_warn("Change program message deserialization failed: %d\n", ret);
            return ret;
        }
        msg_ptr += ret;

        msg_program_index = datapath_program_lookup_uid(datapath, change_program.program_uid);
        if (msg_program_index < 0) {
            // TODO: is it possible there is not enough time between when the message is installed and when a flow asks to use the program?
            libccp_info("Could not find datapath program with program uid: %u\n", msg_program_index);
            return ret;
        }

        state->staged_program_index = (u16)msg_program_index; // index into program array for further lookup of instructions

        // clear any staged but not applied updates, as they are now irrelevant
        memset(&state->pending_update, 0, sizeof(struct staged_update));
        // stage any possible update fields to the initialized registers
        // corresponding to the new program
        ret = stage_multiple_updates(datapath, &state->pending_update, change_program.num_updates, (struct UpdateField*)(msg_ptr));
        if (ret < 0) {
            libccp_warn("change_prog: failed to stage updates: %d\n", ret);
            return ret;
        }

        libccp_debug("Staged switch to program %d\n", change_program.program_uid);
    }

    return ret;
}

// send create msg
int send_conn_create(
    struct ccp_datapath *datapath,
    struct ccp_connection *conn
) {
    int ret;
    char msg[CREATE_MSG_SIZE];
    int msg_size;
    struct CreateMsg cr = {
        .init_cwnd = conn->flow_info.init_cwnd,
        .mss = conn->flow_info.mss,
        .src_ip = conn->flow_info.src_ip,
        .src_port = conn->flow_info.src_port,
        .dst_ip = conn->flow_info.dst_ip,
        .dst_port = conn->flow_info.dst_port,
    };
    memcpy(&cr.congAlg, &conn->flow_info.congAlg, MAX_CONG_ALG_SIZE);

    if (
        conn->last_create_msg_sent != 0 &&
        datapath->since_usecs(conn->last_create_msg_sent) < CREATE_TIMEOUT_US
    ) {
        libccp_trace("%s: " FMT_U64 " < " FMT_U32 "\n", 
            __FUNCTION__, 
            datapath->since_usecs(conn->last_create_msg_sent), 
            CREATE_TIMEOUT_US
        );
        return LIBCCP_CREATE_PENDING;
    }

    if (conn->index < 1) {
        return LIBCCP_CONNECTION_NOT_INITIALIZED;
    }

    conn->last_create_msg_sent = datapath->now();
    msg_size = write_create_msg(msg, CREATE_MSG_SIZE, conn->index, cr);
    if (msg_size < 0) {
        return msg_size;
    }

    ret = datapath->send_msg(datapath, msg, msg_size);
    if (ret) {
        libccp_debug("error sending create, updating fto_timer")
        _update_fto_timer(datapath);
    }
    return ret;
}

void _update_fto_timer(struct ccp_datapath *datapath) {
    if (!datapath->last_msg_sent) {
        datapath->last_msg_sent = datapath->now();
    }
}

/*
 * Returns true if CCP has timed out, false otherwise
 */
bool _check_fto(struct ccp_datapath *datapath) {
    // TODO not sure how well this will scale with many connections,
    //      may be better to make it per conn
    u64 since_last = datapath->since_usecs(datapath->last_msg_sent);
    bool should_be_in_fallback = datapath->last_msg_sent && (since_last > datapath->fto_us);

    if (should_be_in_fallback && !datapath->_in_fallback) {
        datapath->_in_fallback = true;
        libccp_error("ccp fallback (%lu since last msg)\n", since_last);
    } else if (!should_be_in_fallback && datapath->_in_fallback) {
        datapath->_in_fallback = false;
        libccp_error("ccp should not be in fallback");
    }
    return should_be_in_fallback;
}

void _turn_off_fto_timer(struct ccp_datapath *datapath) {
    if (datapath->_in_fallback) {
        libccp_error("ccp restored!\n");
    }
    datapath->_in_fallback = false;
    datapath->last_msg_sent = 0;
}

// send datapath measurements
// acks, rtt, rin, rout
int send_measurement(
    struct ccp_connection *conn,
    u32 program_uid,
    u64 *fields,
    u8 num_fields
) {
    int ret;
    char msg[REPORT_MSG_SIZE];
    int msg_size;
    struct ccp_datapath *datapath __attribute__((unused)) = conn->datapath;

    if (conn->index < 1) {
        return LIBCCP_CONNECTION_NOT_INITIALIZED;
    }

    msg_size = write_measure_msg(msg, REPORT_MSG_SIZE, conn->index, program_uid, fields, num_fields);
    libccp_trace("[sid=%d] In %s\n", conn->index, __FUNCTION__);
    ret = conn->datapath->send_msg(datapath, msg, msg_size);
    if(ret) {
        libccp_debug("error sending measurement, updating fto timer");
        _update_fto_timer(datapath);
    }
    return ret;
}
