/* Reference datapath driver: the unmodified libccp 1.2.0 sources (cref/libccp, byte-identical
 * to the copy in the cargo registry that portus' Cargo.lock resolves) under a scripted clock,
 * with every callback and every sent message recorded.
 *
 * stdin: one case per line, ops separated by single spaces
 *   M<hex>      ccp_read_msg                       -> M<rc>
 *   N<cwnd>,<mss>,<alghex|->   ccp_connection_start -> N<index> (and the create message as S<hex>)
 *   P<16 hex fields>  set the connection's primitives (struct order)
 *   T<hex>      set the clock (microseconds)
 *   I           ccp_invoke                         -> W<cwnd>/R<rate>/S<hex> callbacks in order, then I<rc>
 *   G           dump registers: report 0..15 | control 0..15 | local 0..7 | implicit 0..5
 *   F           ccp_connection_free                -> the close message as S<hex>
 * stdout: one line per case.
 */
#include <stdio.h>
#include <stdlib.h>
#include <string.h>
#include "libccp/ccp.h"
#include "libccp/ccp_priv.h"

static u64 g_clock;
static char *g_out; static size_t g_len, g_cap;

static void out(const char *fmt, ...) {
    char tmp[8192]; va_list ap; __builtin_va_start(ap, fmt);
    int n = vsnprintf(tmp, sizeof tmp, fmt, ap); __builtin_va_end(ap);
    if (g_len + n + 2 > g_cap) { g_cap = (g_cap + n + 2) * 2; g_out = realloc(g_out, g_cap); }
    if (g_len) g_out[g_len++] = ' ';
    memcpy(g_out + g_len, tmp, n); g_len += n; g_out[g_len] = 0;
}
static void set_cwnd(struct ccp_connection *c, u32 v) { (void)c; out("W%x", v); }
static void set_rate(struct ccp_connection *c, u32 v) { (void)c; out("R%x", v); }
static int send_msg(struct ccp_datapath *dp, char *msg, int n) {
    (void)dp; char hex[4200]; int k = 0;
    for (int i = 0; i < n && k < 4190; i++) k += sprintf(hex + k, "%02x", (unsigned char)msg[i]);
    out("S%s", n ? hex : "-"); return 0;
}
static u64 now_(void) { return g_clock; }
static u64 since_(u64 then) { return g_clock - then; }
static u64 after_(u64 us) { return g_clock + us; }

static int unhex(const char *s, unsigned char *buf, int max) {
    int n = 0; if (s[0] == '-') return 0;
    while (s[0] && s[1] && n < max) { unsigned v; sscanf(s, "%2x", &v); buf[n++] = (unsigned char)v; s += 2; }
    return n;
}

int main(void) {
    char *line = NULL; size_t cap = 0; ssize_t len;
    static unsigned char buf[70000];
    while ((len = getline(&line, &cap, stdin)) > 0) {
        if (line[len - 1] == '\n') line[--len] = 0;
        g_len = 0; if (g_out) g_out[0] = 0;
        struct ccp_datapath dp; memset(&dp, 0, sizeof dp);
        dp.set_cwnd = set_cwnd; dp.set_rate_abs = set_rate; dp.send_msg = send_msg;
        dp.now = now_; dp.since_usecs = since_; dp.after_usecs = after_;
        dp.max_connections = 4; dp.max_programs = 10; dp.fto_us = 1000000000ULL;
        dp.ccp_active_connections = calloc(4, sizeof(struct ccp_connection));
        g_clock = 1000;
        int rc = ccp_init(&dp, 7);
        out("init%d", rc);
        struct ccp_connection *conn = NULL;
        char *save = NULL;
        for (char *op = strtok_r(line, " ", &save); op; op = strtok_r(NULL, " ", &save)) {
            switch (op[0]) {
            case 'M': { int n = unhex(op + 1, buf, sizeof buf); int r = ccp_read_msg(&dp, (char *)buf, n); out("M%d", r); break; }
            case 'N': {
                struct ccp_datapath_info info; memset(&info, 0, sizeof info);
                unsigned cw = 0, mss = 0; char alg[200] = "";
                sscanf(op + 1, "%x,%x,%199s", &cw, &mss, alg);
                info.init_cwnd = cw; info.mss = mss; info.src_ip = 1; info.src_port = 2; info.dst_ip = 3; info.dst_port = 4;
                if (alg[0] && alg[0] != '-') { unsigned char nm[64]; int n = unhex(alg, nm, 63); memcpy(info.congAlg, nm, n); }
                conn = ccp_connection_start(&dp, NULL, &info);
                out("N%d", conn ? conn->index : -1);
                break; }
            case 'P': {
                if (!conn) { out("P-noconn"); break; }
                unsigned long long f[16] = {0}; char *p = op + 1; int k = 0;
                while (*p && k < 16) { f[k++] = strtoull(p, &p, 16); if (*p == ',') p++; }
                struct ccp_primitives *m = &conn->prims;
                m->bytes_acked = f[0]; m->packets_acked = f[1]; m->bytes_misordered = f[2]; m->packets_misordered = f[3];
                m->ecn_bytes = f[4]; m->ecn_packets = f[5]; m->lost_pkts_sample = f[6]; m->was_timeout = f[7] != 0;
                m->rtt_sample_us = f[8]; m->rate_outgoing = f[9]; m->rate_incoming = f[10]; m->bytes_in_flight = f[11];
                m->packets_in_flight = f[12]; m->snd_cwnd = f[13]; m->snd_rate = f[14]; m->bytes_pending = f[15];
                break; }
            case 'T': g_clock = strtoull(op + 1, NULL, 16); break;
            case 'I': { if (!conn) { out("I-noconn"); break; } int r = ccp_invoke(conn); out("I%d", r); break; }
            case 'G': {
                if (!conn || !conn->state) { out("G-noconn"); break; }
                struct ccp_priv_state *st = (struct ccp_priv_state *)conn->state;
                char tmp[4000]; int k = 0;
                k += sprintf(tmp + k, "G");
                for (int i = 0; i < 16; i++) k += sprintf(tmp + k, "%s%llx", i ? "," : "", (unsigned long long)st->registers.report_registers[i]);
                k += sprintf(tmp + k, "|");
                for (int i = 0; i < 16; i++) k += sprintf(tmp + k, "%s%llx", i ? "," : "", (unsigned long long)st->registers.control_registers[i]);
                k += sprintf(tmp + k, "|");
                for (int i = 0; i < 8; i++) k += sprintf(tmp + k, "%s%llx", i ? "," : "", (unsigned long long)st->registers.local_registers[i]);
                k += sprintf(tmp + k, "|");
                for (int i = 0; i < 6; i++) k += sprintf(tmp + k, "%s%llx", i ? "," : "", (unsigned long long)st->registers.impl_registers[i]);
                out("%s", tmp); break; }
            case 'F': { if (conn) { ccp_connection_free(&dp, conn->index); conn = NULL; } break; }
            default: out("?%c", op[0]);
            }
        }
        puts(g_out ? g_out : "");
        for (int i = 0; i < 4; i++) if (dp.ccp_active_connections[i].index && dp.ccp_active_connections[i].state) free(dp.ccp_active_connections[i].state);
        free(dp.ccp_active_connections); ccp_free(&dp);
    }
    return 0;
}
