#!/bin/bash
# Confirm a seeded change (sub-agent deliverable) and run our check against it.
# usage: seedcheck.sh Cnn [worktree-dir] [out-dir] [extra properties to check ...]
# 1. in the scratch worktree: existing suite passes with the change, demo fails with it, passes without
# 2. apply patch.diff to /repo, run ./pv check Cnn --tier quick, undo
id=$1; wt=/tmp/seed/$id; out=${SEED_OUT:-/tmp/seed/out}/$id; shift
props="$id $*"
export CARGO_NET_OFFLINE=true; T=$wt/target
res=$out/confirm.txt; : > $res
cd $wt || exit 2
# never rely on the worktree's state or on git stash (the stash is shared by all worktrees of a repository)
git checkout -q -- . ; rm -f tests/seeded_demo.rs
git apply $out/patch.diff || { echo "patch.diff does not apply to the scratch worktree" | tee -a $res; exit 2; }
cp $out/seeded_demo.rs tests/seeded_demo.rs
echo "== suite with change (excluding demo)" >> $res
CARGO_TARGET_DIR=$T cargo test --workspace --no-fail-fast --offline 2>&1 | grep -E "^test result|Running" > $out/suite_with.txt
awk '/Running/{t=$2" "$3} /^test result/{print t" :: "$0}' $out/suite_with.txt > $out/per_target.txt
grep -v seeded_demo $out/per_target.txt | grep FAILED | sed 's/^/non-demo target failing with change: /' >> $res
grep -v seeded_demo $out/per_target.txt | awk '{for(i=1;i<=NF;i++) if($i=="passed;") s+=$(i-1)} END{print "non-demo tests passed with change: " s}' >> $res
grep seeded_demo $out/per_target.txt | sed 's/^/demo with change: /' >> $res
git checkout -q -- src
CARGO_TARGET_DIR=$T cargo test --offline --test seeded_demo 2>&1 | grep "^test result" | sed 's/^/demo without change: /' >> $res
git apply $out/patch.diff
cat $res
cd ${VERIF_ROOT:-/verif}
git -C /repo status --short | grep -q . && { echo "/repo dirty, abort"; exit 2; }
git -C /repo apply $out/patch.diff || { echo "patch does not apply to /repo"; exit 2; }
for p in $props; do
  echo "== ./pv check $p --tier quick (patched)" | tee -a $res
  timeout 1500 ./pv check $p --tier quick 2>&1 | grep -E "VIOLATION|KNOWN-FINDING|^OK|error|Error" | tee -a $res
done
git -C /repo checkout -- .
git -C /repo status --short
