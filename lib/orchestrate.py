"""Orchestration: builds, proof audit, correspondence runs, failing-input search, evidence."""
import argparse
import fcntl
import glob
import json
import os
import random
import re
import shutil
import subprocess
import sys
import time

ROOT = os.path.dirname(os.path.dirname(os.path.abspath(__file__)))
CACHE = os.path.join(ROOT, ".cache")
COQ = os.path.join(ROOT, "coq")
REPO = "/repo"
HARNESS_DIR = os.path.join(ROOT, "harness")
TARGET = os.path.join(CACHE, "target")
OCAML_DIR = os.path.join(CACHE, "ocaml")
DRIVER = os.path.join(OCAML_DIR, "driver")
NCPU = os.cpu_count() or 4

import props  # noqa: E402  (registry of properties)

ENV = dict(os.environ)
ENV.update({"CARGO_NET_OFFLINE": "true", "CARGO_TERM_COLOR": "never", "CARGO_TARGET_DIR": TARGET})
# nothing inherited from the caller may redirect or alter the build of the harness
for _k in ("RUSTFLAGS", "CARGO_BUILD_TARGET_DIR", "CARGO_BUILD_TARGET", "CARGO_ENCODED_RUSTFLAGS", "RUSTC_WRAPPER"):
    ENV.pop(_k, None)


def log(*a):
    print(*a, file=sys.stderr, flush=True)


def sh(cmd, cwd=None, timeout=3600, env=None, stdin=None):
    """Run a command, return (rc, stdout+stderr)."""
    try:
        p = subprocess.run(cmd, cwd=cwd, env=env or ENV, stdout=subprocess.PIPE, stderr=subprocess.STDOUT,
                           timeout=timeout, input=stdin, shell=isinstance(cmd, str))
        return p.returncode, p.stdout.decode("utf-8", "replace")
    except subprocess.TimeoutExpired as e:
        return 124, (e.stdout or b"").decode("utf-8", "replace") + "\n[timeout]"


class Lock:
    def __init__(self, name):
        os.makedirs(CACHE, exist_ok=True)
        self.path = os.path.join(CACHE, name + ".lock")

    def __enter__(self):
        self.f = open(self.path, "w")
        fcntl.flock(self.f, fcntl.LOCK_EX)
        return self

    def __exit__(self, *a):
        fcntl.flock(self.f, fcntl.LOCK_UN)
        self.f.close()


# ----------------------------------------------------------------------------- builds

def newest_mtime(paths):
    m = 0
    for p in paths:
        try:
            m = max(m, os.path.getmtime(p))
        except OSError:
            pass
    return m


def build_harness(profile="debug"):
    """cargo build of the harness against /repo's working tree (path dependency)."""
    with Lock("cargo"):
        lock = os.path.join(HARNESS_DIR, "Cargo.lock")
        if not os.path.exists(lock):
            shutil.copy(os.path.join(REPO, "Cargo.lock"), lock)
        cmd = ["cargo", "build", "--offline"] + (["--release"] if profile == "release" else [])
        rc, out = sh(cmd, cwd=HARNESS_DIR, timeout=1800)
        if rc != 0:
            # a stale lock file can be the reason: refresh from /repo once
            shutil.copy(os.path.join(REPO, "Cargo.lock"), lock)
            rc, out = sh(cmd, cwd=HARNESS_DIR, timeout=1800)
        errs = "\n".join(l for l in out.splitlines() if l.startswith("error") or "-->" in l and "/verif/" in l)
        return rc == 0, (errs or out[-3000:])


def harness_bin(profile="debug"):
    return os.path.join(TARGET, profile, "harness")


def ensure_makefile():
    mk = os.path.join(COQ, "Makefile")
    cp = os.path.join(COQ, "_CoqProject")
    if not os.path.exists(mk) or os.path.getmtime(mk) < os.path.getmtime(cp):
        sh(["coq_makefile", "-f", "_CoqProject", "-o", "Makefile"], cwd=COQ)


def coq_make(targets, timeout=3000, force=()):
    """Full .vo build (never -vos) of the given targets through the generated Makefile."""
    with Lock("coq"):
        ensure_makefile()
        for t in force:
            for ext in (".vo", ".glob", ".vos", ".vok"):
                try:
                    os.remove(os.path.join(COQ, t[:-3] + ext) if t.endswith(".vo") else os.path.join(COQ, t + ext))
                except OSError:
                    pass
        rc, out = sh(["make", "-j%d" % NCPU, "-k"] + list(targets), cwd=COQ, timeout=timeout)
        return rc == 0, out


def build_driver():
    """Extract the model and compile the OCaml driver when anything it depends on changed."""
    with Lock("ocaml"):
        srcs = glob.glob(os.path.join(COQ, "theories", "**", "*.v"), recursive=True) + \
            glob.glob(os.path.join(COQ, "gen", "*.v")) + \
            [os.path.join(COQ, "extract", "Extract.v")] + glob.glob(os.path.join(ROOT, "ocaml", "*.ml"))
        if os.path.exists(DRIVER) and os.path.getmtime(DRIVER) >= newest_mtime(srcs):
            return True, "up to date"
        ok, out = coq_make(["extract/Extract.vo"], force=["extract/Extract.vo"])
        if not ok:
            return False, "extraction failed:\n" + out[-3000:]
        os.makedirs(OCAML_DIR, exist_ok=True)
        for f in ("model.ml", "model.mli"):
            shutil.copy(os.path.join(COQ, f), os.path.join(OCAML_DIR, f))
        for f in glob.glob(os.path.join(ROOT, "ocaml", "*.ml")):
            shutil.copy(f, OCAML_DIR)
        order = ["model.mli", "model.ml", "util.ml"] + \
            sorted(os.path.basename(f) for f in glob.glob(os.path.join(ROOT, "ocaml", "*.ml"))
                   if os.path.basename(f) not in ("util.ml", "driver.ml")) + ["driver.ml"]
        tmp = DRIVER + ".new"
        rc, out = sh(["ocamlfind", "ocamlopt", "-O3", "-w", "-a"] + order + ["-o", tmp], cwd=OCAML_DIR, timeout=900)
        if rc != 0:
            return False, "driver build failed:\n" + out[-3000:]
        os.replace(tmp, DRIVER)
        return True, "rebuilt"


# ----------------------------------------------------------------------------- proof audit

FORBIDDEN = re.compile(
    r"\b(Admitted|admit|Axiom|Axioms|Parameter|Parameters|Conjecture|Conjectures|Admit Obligations|"
    r"bypass_check|Unset Guard Checking|Unset Positivity Checking|Unset Universe Checking|"
    r"type-in-type|impredicative-set|native_compute)\b")
OUTSIDE_SECTION = re.compile(r"^\s*(Variable|Variables|Hypothesis|Hypotheses|Context)\b")


def strip_comments(src):
    out, depth, i, n = [], 0, 0, len(src)
    while i < n:
        if src.startswith("(*", i):
            depth += 1
            i += 2
        elif src.startswith("*)", i) and depth > 0:
            depth -= 1
            i += 2
        else:
            if depth == 0:
                out.append(src[i])
            elif src[i] == "\n":
                out.append("\n")
            i += 1
    return "".join(out)


def audit_sources():
    """Grep the whole development for anything that would declare an axiom or switch off a check."""
    bad = []
    files = glob.glob(os.path.join(COQ, "**", "*.v"), recursive=True) + [os.path.join(COQ, "_CoqProject")]
    for f in files:
        if "/.cache/" in f:
            continue
        src = strip_comments(open(f).read())
        depth = 0
        for ln, line in enumerate(src.splitlines(), 1):
            m = FORBIDDEN.search(line)
            if m:
                bad.append("%s:%d: %s" % (os.path.relpath(f, ROOT), ln, m.group(0)))
            if re.match(r"^\s*Section\b", line):
                depth += 1
            elif re.match(r"^\s*End\b", line) and depth > 0:
                depth -= 1
            elif depth == 0 and OUTSIDE_SECTION.match(line):
                bad.append("%s:%d: %s outside a section" % (os.path.relpath(f, ROOT), ln, line.strip()))
    return bad


PROOF_KW = re.compile(r"^\s*(Theorem|Lemma|Corollary|Example|Fact|Proposition|Remark)\s+([A-Za-z0-9_']+)", re.M)


def cone_of(vfile):
    """Transitive dependencies (inside the development) of a .v file, via coqdep."""
    with Lock("coq"):
        ensure_makefile()
    rc, out = sh(["coqdep", "-Q", "theories", "Portus", "-Q", "gen", "PortusGen", "-Q", "Properties", "PortusProps", "-Q", "extract", "PortusExtract"] +
                 [os.path.relpath(f, COQ) for f in glob.glob(os.path.join(COQ, "**", "*.v"), recursive=True)],
                 cwd=COQ)
    deps = {}
    for line in out.splitlines():
        if ":" not in line:
            continue
        lhs, rhs = line.split(":", 1)
        tgt = [t for t in lhs.split() if t.endswith(".vo")]
        if not tgt:
            continue
        deps[tgt[0][:-1]] = [d[:-1] for d in rhs.split() if d.endswith(".vo")]
    seen, todo = [], [vfile]
    while todo:
        f = todo.pop()
        if f in seen:
            continue
        seen.append(f)
        todo.extend(deps.get(f, []))
    return seen


def proof_stage(pid, cfg):
    """Build the property's cone, re-run its Print Assumptions, audit.  Returns a dict."""
    res = {"ok": True, "problems": [], "obligations": 0, "discharged": 0, "theorems": [], "axioms": [],
           "files": []}
    vfile = cfg["coq"]
    ok, out = coq_make([vfile + "o"], force=[vfile + "o"])
    cone = cone_of(vfile)
    res["files"] = cone
    failed_files = re.findall(r'File "\./([^"]+)", line (\d+)', out) if not ok else []
    for f in cone:
        try:
            src = strip_comments(open(os.path.join(COQ, f)).read())
        except OSError:
            continue
        names = [m.group(2) for m in PROOF_KW.finditer(src)]
        res["obligations"] += len(names)
        if os.path.exists(os.path.join(COQ, f + "o")):
            res["discharged"] += len(names)
        if f == vfile:
            res["theorems"] = names
    if not ok:
        res["ok"] = False
        errtxt = out[out.find("File \""):][:1500] if "File \"" in out else out[-1500:]
        res["problems"].append("proof obligation no longer checks: " +
                               ", ".join("%s:%s" % ff for ff in failed_files[:3]) + "\n" + errtxt)
    # Print Assumptions
    src = strip_comments(open(os.path.join(COQ, vfile)).read())
    n_pa = len(re.findall(r"\bPrint Assumptions\b", src))
    closed = out.count("Closed under the global context")
    allowed = set(cfg.get("allowed_axioms", []))
    ax = []
    for m in re.finditer(r"Axioms:\n((?:.+\n)+?)(?=\S*COQC|\Z|Closed under|\n)", out):
        for line in m.group(1).splitlines():
            mm = re.match(r"^([A-Za-z0-9_.']+)\s*:", line)
            if mm:
                ax.append(mm.group(1))
    res["axioms"] = sorted(set(ax))
    if ok:
        bad_ax = [a for a in ax if a not in allowed]
        if bad_ax:
            res["ok"] = False
            res["problems"].append("theorem depends on axioms outside the allow-list: " + ", ".join(sorted(set(bad_ax))))
        n_ax_blocks = out.count("Axioms:")
        if closed + n_ax_blocks < n_pa:
            res["ok"] = False
            res["problems"].append("Print Assumptions output missing (%d of %d)" % (closed + n_ax_blocks, n_pa))
    bad = audit_sources()
    if bad:
        res["ok"] = False
        res["problems"].append("forbidden constructs in the development: " + "; ".join(bad[:5]))
    res["print_assumptions"] = {"commands": n_pa, "closed": closed}
    return res


# ----------------------------------------------------------------------------- running cases

def run_driver(lines):
    """lines: list of 'cmd\\targ\\timpl'.  Returns list of (model, verdict)."""
    if not lines:
        return []
    k = min(NCPU, max(1, len(lines) // 2000))
    chunks = [lines[i::k] for i in range(k)]
    procs = []
    for c in chunks:
        p = subprocess.Popen(["bash", "-c", "ulimit -s unlimited 2>/dev/null; exec " + DRIVER], stdin=subprocess.PIPE,
                             stdout=subprocess.PIPE, stderr=subprocess.PIPE)
        procs.append(p)
    outs = []
    import threading
    results = [None] * k

    def feed(i):
        o, e = procs[i].communicate(("\n".join(chunks[i]) + "\n").encode())
        results[i] = (o.decode("utf-8", "replace").split("\n"), e.decode("utf-8", "replace"), procs[i].returncode)
    ths = [threading.Thread(target=feed, args=(i,)) for i in range(k)]
    for t in ths:
        t.start()
    for t in ths:
        t.join()
    merged = [None] * len(lines)
    for i in range(k):
        o, e, rc = results[i]
        if o and o[-1] == "":
            o = o[:-1]
        for j, l in enumerate(o):
            idx = i + j * k
            if idx < len(lines):
                parts = l.split("\t")
                merged[idx] = (parts[0], parts[1] if len(parts) > 1 else "-")
        if rc != 0 or len(o) != len(chunks[i]):
            for j in range(len(o), len(chunks[i])):
                merged[i + j * k] = ("DRIVER-CRASH rc=%s %s" % (rc, e[-200:].replace("\n", " ")), "-")
    return merged


def run_harness(args, stdin=None, profile="debug", timeout=3000):
    """Results come back through a file (HARNESS_OUT): portus itself prints to stdout."""
    import tempfile
    os.makedirs(os.path.join(CACHE, "tmp"), exist_ok=True)
    fd, path = tempfile.mkstemp(prefix="hout-", dir=os.path.join(CACHE, "tmp"))
    os.close(fd)
    env = dict(ENV)
    env["HARNESS_OUT"] = path
    if profile == "traced":
        # the same binary with a subscriber that enables every level of the library's log
        env["HARNESS_TRACE"] = "1"
        profile = "debug"
    try:
        p = subprocess.run([harness_bin(profile)] + args, input=stdin, stdout=subprocess.DEVNULL, stderr=subprocess.PIPE,
                           timeout=timeout, env=env)
        out = open(path, "rb").read().decode("utf-8", "replace")
    finally:
        try:
            os.remove(path)
        except OSError:
            pass
    lines = [l for l in out.split("\n") if l]
    return p.returncode, lines, p.stderr.decode("utf-8", "replace")


CREF_DIR = os.path.join(ROOT, "cref")
CREF_BIN = os.path.join(CACHE, "cref", "driver")


def build_cref():
    """gcc build of the unmodified libccp 1.2.0 sources with the scripted driver."""
    with Lock("cref"):
        srcs = glob.glob(os.path.join(CREF_DIR, "libccp", "*.[ch]")) + [os.path.join(CREF_DIR, "driver.c")]
        if os.path.exists(CREF_BIN) and os.path.getmtime(CREF_BIN) >= newest_mtime(srcs):
            return True, "up to date"
        # the vendored copy must be byte-identical to what it was when vendored (and to the registry copy when present)
        rc, out = sh("cd %s/libccp && sha256sum -c ../SHA256SUMS" % CREF_DIR)
        if rc != 0:
            return False, "vendored libccp sources changed:\n" + out[-800:]
        reg = glob.glob(os.path.expanduser("~/.cargo/registry/src/*/libccp-1.2.0/libccp"))
        if reg:
            for f in glob.glob(os.path.join(CREF_DIR, "libccp", "*.[ch]")):
                g = os.path.join(reg[0], os.path.basename(f))
                if os.path.exists(g) and open(f, "rb").read() != open(g, "rb").read():
                    return False, "vendored %s differs from the cargo registry copy" % os.path.basename(f)
        os.makedirs(os.path.dirname(CREF_BIN), exist_ok=True)
        cs = ["driver.c"] + ["libccp/%s.c" % x for x in ("ccp", "machine", "serialize", "ccp_priv")]
        rc, out = sh(["gcc", "-O1", "-w", "-o", CREF_BIN + ".new"] + cs, cwd=CREF_DIR, timeout=600)
        if rc != 0:
            return False, out[-2000:]
        os.replace(CREF_BIN + ".new", CREF_BIN)
        return True, "rebuilt"


def cref_fill(lines):
    """For `dp` cases the implementation's part is the bytes inside the script (built by portus);
    the observable result is what the real libccp does with them: run the C driver."""
    idx = [i for i, l in enumerate(lines) if l.startswith("dp\t")]
    if not idx:
        return lines
    ok, msg = build_cref()
    if not ok:
        return [l if i not in set(idx) else l.rsplit("\t", 1)[0] + "\tCREF-UNAVAILABLE " + msg[:80].replace("\n", " ") for i, l in enumerate(lines)]
    scripts = []
    for i in idx:
        arg = lines[i].split("\t")[1]
        scripts.append(arg.split("|", 1)[1] if "|" in arg else "")
    k = min(NCPU, max(1, len(scripts) // 500))
    chunks = [scripts[j::k] for j in range(k)]
    procs = [subprocess.Popen([CREF_BIN], stdin=subprocess.PIPE, stdout=subprocess.PIPE, stderr=subprocess.DEVNULL) for _ in chunks]
    import threading
    outs = [None] * k

    def feed(j):
        o, _ = procs[j].communicate(("\n".join(chunks[j]) + "\n").encode())
        outs[j] = o.decode("utf-8", "replace").split("\n")
    ths = [threading.Thread(target=feed, args=(j,)) for j in range(k)]
    for t in ths:
        t.start()
    for t in ths:
        t.join()
    res = [None] * len(scripts)
    for j in range(k):
        for m, o in enumerate(outs[j][:len(chunks[j])]):
            res[j + m * k] = o
    out = list(lines)
    for pos, i in enumerate(idx):
        parts = lines[i].split("\t")
        out[i] = "%s\t%s\t%s" % (parts[0], parts[1], res[pos] if res[pos] is not None else "CREF-CRASH")
    return out


def eval_cases(cases, profile="debug"):
    """cases: list of (cmd, arg).  Runs implementation and model.  Returns list of dicts."""
    inp = "".join("%s\t%s\n" % c for c in cases).encode()
    rc, lines, err = run_harness(["eval"], stdin=inp, profile=profile)
    if len(lines) != len(cases):
        lines = lines + ["%s\t%s\tHARNESS-CRASH" % cases[i] for i in range(len(lines), len(cases))]
    lines = cref_fill(lines)
    mv = run_driver(lines)
    out = []
    for l, (m, v) in zip(lines, mv):
        cmd, arg, impl = (l.split("\t") + ["", "", ""])[:3]
        out.append({"cmd": cmd, "arg": arg, "impl": impl, "model": m, "verdict": v})
    return out


CURRENT_PID = [None]


def is_fail(r):
    """FAIL verdicts may be tagged with property ids ("FAIL:C05:...,C09:..."): a tagged verdict
    counts for the property being checked only if it names it."""
    v = r["verdict"]
    if not v.startswith("FAIL"):
        return False
    tags = re.findall(r"\bC\d\d(?=:)", v)
    return (not tags) or (CURRENT_PID[0] in tags)


def is_mismatch(r):
    return r["impl"] != r["model"]


# ----------------------------------------------------------------------------- shrinking

HEXRE = re.compile(r"^[0-9a-f]+$")


def shrink_candidates(arg):
    """Smaller variants of a case argument (byte strings, ' ; '-separated op lists, token lists)."""
    cands = []
    if " ; " in arg:
        items = arg.split(" ; ")
        n = len(items)
        step = max(1, n // 2)
        while step >= 1:
            for i in range(0, n, step):
                c = items[:i] + items[i + step:]
                if c:
                    cands.append(" ; ".join(c))
            step //= 2
    elif HEXRE.match(arg) and len(arg) % 2 == 0:
        b = [arg[i:i + 2] for i in range(0, len(arg), 2)]
        n = len(b)
        step = max(1, n // 2)
        while step >= 1:
            for i in range(0, n, step):
                c = b[:i] + b[i + step:]
                if c:
                    cands.append("".join(c))
            step //= 2
        for i in range(min(n, 256)):
            if b[i] != "00":
                cands.append("".join(b[:i] + ["00"] + b[i + 1:]))
    elif " " in arg:
        items = arg.split(" ")
        for i in range(len(items)):
            c = items[:i] + items[i + 1:]
            if c:
                cands.append(" ".join(c))
    seen, out = set(), []
    for c in cands:
        if c not in seen and c != arg:
            seen.add(c)
            out.append(c)
    return out[:600]


def shrink(case, pred, rounds=12, profile="debug"):
    """Greedy delta debugging: keep the smallest variant on which pred(result) still holds."""
    best = case
    for _ in range(rounds):
        cands = shrink_candidates(best["arg"])
        if not cands:
            break
        res = eval_cases([(best["cmd"], a) for a in cands], profile=profile)
        good = [r for r in res if pred(r)]
        if not good:
            break
        good.sort(key=lambda r: len(r["arg"]))
        if len(good[0]["arg"]) >= len(best["arg"]) and good[0]["arg"].count("00") <= best["arg"].count("00"):
            break
        best = good[0]
    return best


# ----------------------------------------------------------------------------- findings

def load_known():
    known = []
    p = os.path.join(ROOT, "KNOWN_FINDINGS.txt")
    if os.path.exists(p):
        for line in open(p):
            line = line.strip()
            m = re.match(r"^finding:\s+property=(\S+)\s+class=(\S+)\s+(.*)$", line)
            if m:
                known.append({"property": m.group(1), "class": m.group(2), "what": m.group(3)})
    return known


# ----------------------------------------------------------------------------- the check

def classify(impl):
    t = impl.split(" ")
    if t[0] == "OK" and len(t) >= 3 and t[1].isdigit():
        return "OK " + t[2]
    if len(t) >= 2 and t[0] == "OK":
        return "OK " + t[1][:12] if not HEXRE.match(t[1]) else "OK"
    return t[0][:24]


def write_replay(pid, tier, seed, kind, body):
    d = os.path.join(ROOT, "replays")
    os.makedirs(d, exist_ok=True)
    path = os.path.join(d, "%s-%s-%d.json" % (pid, kind, int(time.time() * 1000) % 10**10))
    body = dict(body)
    body.update({"property": pid, "tier": tier, "seed": seed, "kind": kind})
    with open(path, "w") as f:
        json.dump(body, f, indent=1)
    return path


def check(pid, tier, seed):
    t0 = time.time()
    CURRENT_PID[0] = pid
    cfg = props.PROPS[pid]
    violations = []   # (replay_path, suffix)
    known_lines = []
    notes = []

    # 1. implementation
    ok_h, herr = build_harness("debug")
    profiles = ["debug"]
    if ok_h and cfg.get("traced_too"):
        profiles.append("traced")
    if ok_h and cfg.get("release_too") and tier == "thorough":
        ok_r, _ = build_harness("release")
        if ok_r:
            profiles.append("release")

    # 2. generated tables from the freshly built crate
    if ok_h and cfg.get("needs_tables", False):
        gen_tables()

    # 3. proofs (the translator obligations are regenerated from the source first: the generators
    #    rewrite their file only when its text changes, so an unchanged source costs nothing)
    for g in ("gen_uidops.py", "gen_flowkey.py", "gen_langtables.py", "gen_wiretables.py", "gen_statespace.py"):
        with Lock("coq"):
            rc, gout = sh([sys.executable, os.path.join(ROOT, "lib", g)])
        if rc != 0:
            notes.append("translator %s failed: %s" % (g, gout[-300:]))
    proof = proof_stage(pid, cfg)

    # 4. model driver
    ok_d, derr = build_driver()

    results = []
    streams_info = {}
    if ok_h and ok_d:
        # corpus first
        corpus_cases = []
        for f in sorted(glob.glob(os.path.join(ROOT, "corpus", pid, "*.case"))):
            for line in open(f):
                line = line.rstrip("\n")
                if line and not line.startswith("#"):
                    parts = line.split("\t")
                    if len(parts) >= 2:
                        corpus_cases.append((parts[0], parts[1]))
        if corpus_cases:
            rs = eval_cases(corpus_cases)
            for r in rs:
                r["stream"] = "corpus"
            results.extend(rs)
            streams_info["corpus"] = len(rs)
        for profile in profiles:
            for stream in cfg["streams"]:
                ts = time.time()
                rc, lines, err = run_harness([stream, tier, str(seed)], profile=profile)
                if rc != 0 or not lines:
                    # the harness itself failed (it aborted, or wrote nothing): the property was not checked on this stream
                    notes.append("harness stream %s exited %d: %s" % (stream, rc, err[-300:]))
                    path = write_replay(pid, tier, seed, "correspondence-unavailable", {
                        "obligation": "the correspondence harness did not complete stream %s (exit status %d, %d result lines)" % (stream, rc, len(lines)),
                        "detail": err[-1500:]})
                    violations.append((path, " no-failing-input-found"))
                lines = cref_fill(lines)
                mv = run_driver(lines)
                if stream in ("compile", "c04"):
                    # kept for the kernel-versus-extraction cross-check (lib/xcheck.py)
                    # (per process: two checks that share a stream may run at the same time)
                    with open(os.path.join(CACHE, "%s.%d.cases" % (stream, os.getpid())), "w") as f:
                        f.write("\n".join(lines) + "\n")
                    with open(os.path.join(CACHE, "%s.%d.model" % (stream, os.getpid())), "w") as f:
                        f.write("\n".join("%s\t%s" % (m, v) for (m, v) in mv) + "\n")
                for l, (m, v) in zip(lines, mv):
                    cmd, arg, impl = (l.split("\t") + ["", "", ""])[:3]
                    results.append({"cmd": cmd, "arg": arg, "impl": impl, "model": m, "verdict": v,
                                    "stream": stream + ("" if profile == "debug" else "@" + profile)})
                streams_info[stream + ("" if profile == "debug" else "@" + profile)] = len(lines)
                log("[%s] stream %s (%s): %d cases in %.1fs" % (pid, stream, profile, len(lines), time.time() - ts))

    # 4b. kernel-versus-extraction cross-check: the Coq kernel re-evaluates a sample of the cases the
    #     extracted model has just answered (the whole compiler chain, the decoder)
    if ok_h and ok_d:
        for st in ("compile", "c04"):
            if st in cfg["streams"]:
                with Lock("coq"):
                    rc, xout = sh([sys.executable, os.path.join(ROOT, "lib", "xcheck.py"), st, "40", str(os.getpid())], timeout=1200)
                for ext in (".cases", ".model"):
                    try:
                        os.remove(os.path.join(CACHE, "%s.%d%s" % (st, os.getpid(), ext)))
                    except OSError:
                        pass
                notes.append(xout.strip().split("\n")[0][:200])
                if rc != 0:
                    proof["ok"] = False
                    proof["problems"].append("kernel evaluation and the extracted model disagree on this run's %s cases: %s" % (st, xout[-400:]))

    fails = [r for r in results if is_fail(r)]
    mism = [r for r in results if is_mismatch(r) and not is_fail(r)]
    known = [k for k in load_known() if k["property"] == pid]

    def report_fail(r, why):
        cls = r["verdict"].split(":", 1)[1] if ":" in r["verdict"] else r["verdict"]
        for k in known:
            if cls == k["class"] or cls.startswith(k["class"] + ":"):
                line = "KNOWN-FINDING: property=%s %s" % (pid, k["what"])
                if line not in known_lines:
                    known_lines.append(line)
                return
        path = write_replay(pid, tier, seed, "failing-input", {
            "cmd": r["cmd"], "arg": r["arg"], "implementation": r["impl"], "model": r["model"],
            "failed_predicate": r["verdict"], "why": why})
        violations.append((path, ""))

    if fails:
        # group by failure class; shrink one representative per class
        by_cls = {}

        def own_class(r):
            """the part of a (possibly multi-property) verdict that concerns the property being checked"""
            v = r["verdict"]
            parts = [t for t in v[len("FAIL:"):].split(",") if t.startswith(pid + ":")]
            return ",".join(parts) if parts else v
        for r in fails:
            by_cls.setdefault(own_class(r), []).append(r)
        for cls, rs in sorted(by_cls.items()):
            rs.sort(key=lambda r: len(r["arg"]))
            rep = rs[0]
            try:
                rep = shrink(rep, lambda x, c=cls: is_fail(x) and own_class(x) == c)
            except Exception as e:  # shrinking is best effort
                notes.append("shrink failed: %r" % (e,))
            report_fail(rep, "the property's executable predicate fails on the implementation's result (%d such cases)" % len(rs))

    if not ok_h:
        path = write_replay(pid, tier, seed, "correspondence-unavailable", {
            "obligation": "correspondence harness no longer builds against /repo", "detail": herr[-2000:]})
        violations.append((path, " no-failing-input-found"))
    if not ok_d:
        path = write_replay(pid, tier, seed, "model-unavailable", {
            "obligation": "model extraction / driver build", "detail": derr[-2000:]})
        violations.append((path, " no-failing-input-found"))

    if (mism or not proof["ok"]) and not violations:
        # correspondence or a proof obligation broke without a failing input so far: search harder
        found = None
        if ok_h and ok_d and tier == "quick" and cfg.get("search_with_thorough", True):
            t_search = time.time()
            for stream in cfg["streams"]:
                try:
                    rc, lines, err = run_harness([stream, "thorough", str(seed)], timeout=cfg.get("search_timeout", 600))
                except subprocess.TimeoutExpired:
                    continue
                lines = cref_fill(lines)
                mv = run_driver(lines)
                for l, (m, v) in zip(lines, mv):
                    if is_fail({"verdict": v}):
                        vcls = v.split(":", 1)[1] if ":" in v else v
                        if any(vcls == k["class"] or vcls.startswith(k["class"] + ":") for k in known):
                            continue    # a recorded finding is not what broke
                        cmd, arg, impl = (l.split("\t") + ["", "", ""])[:3]
                        found = {"cmd": cmd, "arg": arg, "impl": impl, "model": m, "verdict": v, "stream": stream}
                        break
                if found:
                    break
            notes.append("failing-input search: thorough streams, %.1fs, %s" % (time.time() - t_search, "found" if found else "none found"))
        if found:
            try:
                found = shrink(found, lambda x, c=found["verdict"]: x["verdict"] == c)
            except Exception:
                pass
            report_fail(found, "found by the failing-input search after the correspondence/proof broke")
        if not violations:
            # (a recorded finding among the failing inputs does not account for a broken obligation or for
            # cases on which the model and the implementation differ: those are reported all the same)
            body = {}
            if not proof["ok"]:
                body["obligation"] = "; ".join(proof["problems"])[:3000]
                body["theorems"] = proof["theorems"]
            if mism:
                mism.sort(key=lambda r: len(r["arg"]))
                rep = mism[0]
                try:
                    rep = shrink(rep, is_mismatch)
                except Exception:
                    pass
                body["correspondence"] = "model and implementation disagree (%d cases); model file(s): %s" % (
                    len(mism), ", ".join(f for f in proof["files"] if "theories/" in f and "Facts" not in f)[:400])
                body.update({"cmd": rep["cmd"], "arg": rep["arg"], "implementation": rep["impl"], "model": rep["model"],
                             "predicate_on_implementation": rep["verdict"]})
            path = write_replay(pid, tier, seed, "unchecked", body)
            violations.append((path, " no-failing-input-found"))

    # 6. evidence
    nontrivial = cfg.get("nontrivial", lambda r: not r["impl"].startswith(("ERR", "PANIC")))
    distinct = set()
    dist = {}
    for r in results:
        c = classify(r["impl"])
        dist[c] = dist.get(c, 0) + 1
        if nontrivial(r):
            distinct.add((r["cmd"], r["arg"]))
    rnd = random.Random(seed)
    samples = []
    if results:
        for r in [results[0]] + rnd.sample(results, min(5, len(results))):
            samples.append({"cmd": r["cmd"], "arg": r["arg"][:400], "implementation": r["impl"][:300],
                            "model": r["model"][:300], "predicate": r["verdict"]})
    samples.extend({"theorem": t} for t in proof["theorems"][:12])
    wall = time.time() - t0
    ev = {
        "property_id": pid, "tier": tier, "seed": seed, "level": "proof",
        "coverage": {
            "obligations": max(proof["obligations"], 1),
            "discharged": proof["discharged"] if proof["ok"] else min(proof["discharged"], max(proof["obligations"] - 1, 0)),
            "checker_cmd": "make -C coq %so  (coqc 8.16.1, full .vo build) ; Print Assumptions under every theorem of %s" % (cfg["coq"], cfg["coq"]),
            "trusted_base": props.TRUSTED_BASE + cfg.get("trusted_extra", []),
            "theorems": proof["theorems"],
            "proof_files": proof["files"],
            "print_assumptions": proof["print_assumptions"],
            "axioms_reported": proof["axioms"],
            "proof_ok": proof["ok"],
            "evaluations": len(results),
            "distinct_nontrivial": len(distinct),
            "rule": cfg.get("rule", ""),
            "streams": streams_info,
            "distribution": dict(sorted(dist.items(), key=lambda kv: -kv[1])[:40]),
            "disagreements": len(mism),
            "predicate_failures": len(fails),
            "samples": samples,
            "exhaustive": bool(cfg.get("exhaustive", False)),
            "explanation": cfg.get("explanation", ""),
            "notes": notes,
        },
        "assumptions": cfg.get("assumptions", []),
        "wall_s": round(wall, 2),
        "violations": len(violations),
    }
    os.makedirs(os.path.join(ROOT, "evidence"), exist_ok=True)
    with open(os.path.join(ROOT, "evidence", pid + ".json"), "w") as f:
        json.dump(ev, f, indent=1)

    for l in known_lines:
        print(l)
    for path, suffix in violations:
        print("VIOLATION property=%s replay=%s%s" % (pid, path, suffix))
    if not violations:
        print("OK property=%s tier=%s obligations=%d/%d cases=%d distinct_nontrivial=%d disagreements=0 wall=%.1fs" % (
            pid, tier, ev["coverage"]["discharged"], ev["coverage"]["obligations"], len(results), len(distinct), wall))
    sys.stdout.flush()
    return 1 if violations else 0


def gen_tables():
    """Regenerate coq/gen/ImplTables.v by probing the freshly built crate."""
    rc, lines, err = run_harness(["tables"])
    if rc != 0:
        return False
    txt = "\n".join(lines) + "\n"
    path = os.path.join(COQ, "gen", "ImplTables.v")
    old = open(path).read() if os.path.exists(path) else None
    if old != txt:
        with open(path, "w") as f:
            f.write(txt)
    return True


def replay(path):
    body = json.load(open(path))
    pid = body.get("property")
    print("replay of %s (%s)" % (path, body.get("kind")))
    if "cmd" not in body:
        print("no concrete input recorded; unchecked obligation:\n%s" % body.get("obligation", body.get("correspondence")))
        return 1
    ok_h, herr = build_harness()
    ok_d, derr = build_driver()
    if not (ok_h and ok_d):
        print("cannot build: %s %s" % (herr, derr))
        return 1
    r = eval_cases([(body["cmd"], body["arg"])])[0]
    print(json.dumps(r, indent=1))
    if is_fail(r) or is_mismatch(r):
        print("VIOLATION property=%s replay=%s" % (pid, path))
        return 1
    print("no longer fails")
    return 0


def setup():
    t0 = time.time()
    os.makedirs(CACHE, exist_ok=True)
    ok, err = build_harness("debug")
    log("harness build: %s" % ("ok" if ok else "FAILED\n" + err))
    if ok:
        gen_tables()
    with Lock("coq"):
        ensure_makefile()
    sh([sys.executable, os.path.join(ROOT, "lib", "gen_uidops.py")])
    sh([sys.executable, os.path.join(ROOT, "lib", "gen_flowkey.py")])
    sh([sys.executable, os.path.join(ROOT, "lib", "gen_langtables.py")])
    sh([sys.executable, os.path.join(ROOT, "lib", "gen_wiretables.py")])
    sh([sys.executable, os.path.join(ROOT, "lib", "gen_statespace.py")])
    # clean full build of the development
    sh(["make", "clean"], cwd=COQ)
    for f in glob.glob(os.path.join(COQ, "**", "*.vo*"), recursive=True) + glob.glob(os.path.join(COQ, "**", "*.glob"), recursive=True):
        try:
            os.remove(f)
        except OSError:
            pass
    okc, out = coq_make([], timeout=3400)
    log("coq build: %s (%.0fs)" % ("ok" if okc else "FAILED\n" + out[-3000:], time.time() - t0))
    okd, derr = build_driver()
    log("driver build: %s" % ("ok" if okd else "FAILED\n" + derr))
    okr, rerr = build_cref()
    log("cref build: %s" % ("ok" if okr else "FAILED\n" + rerr))
    return 0 if (ok and okc and okd and okr) else 1


def main(argv):
    ap = argparse.ArgumentParser(prog="pv")
    sub = ap.add_subparsers(dest="cmd")
    sub.add_parser("setup")
    c = sub.add_parser("check")
    c.add_argument("property")
    c.add_argument("--tier", default=os.environ.get("VERIF_TIER", "quick"), choices=["quick", "thorough"])
    r = sub.add_parser("replay")
    r.add_argument("path")
    a = sub.add_parser("all")
    a.add_argument("--tier", default="quick")
    args = ap.parse_args(argv)
    seed = int(os.environ.get("VERIF_SEED", "1") or "1")
    if args.cmd == "setup":
        return setup()
    if args.cmd == "check":
        if args.property not in props.PROPS:
            print("unknown property %s" % args.property)
            return 2
        return check(args.property, args.tier, seed)
    if args.cmd == "replay":
        return replay(args.path)
    if args.cmd == "all":
        rc = 0
        for pid in sorted(props.PROPS):
            rc |= check(pid, args.tier, seed)
        return rc
    ap.print_help()
    return 2
