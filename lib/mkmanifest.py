#!/usr/bin/env python3
"""Regenerate MANIFEST.json from the registry (lib/props.py) so the two never drift."""
import json, os, sys
sys.path.insert(0, os.path.dirname(os.path.abspath(__file__)))
import props
ROOT = os.path.dirname(os.path.dirname(os.path.abspath(__file__)))
ALL = ["C%02d" % i for i in range(1, 21)]
checks = []
for pid in ALL:
    if pid not in props.PROPS:
        continue
    c = props.PROPS[pid]
    checks.append({
        "property_id": pid,
        "quick_cmd": "./pv check %s --tier quick" % pid,
        "thorough_cmd": "./pv check %s --tier thorough" % pid,
        "evidence_file": "evidence/%s.json" % pid,
        "replay_cmd_template": "./pv replay {path}",
        "engine": "coq-model+correspondence",
        "level_claimed": {"category": "proof", "text": c["level_text"], "design_ref": c.get("design_ref", "DESIGN.md section 6, " + pid)},
        "level_note": c["level_note"],
        "technique": c.get("technique", "machine-checked proof in Coq 8.16.1 over a hand-written executable model, tied to the code by a differential correspondence run"),
    })
na = [{"property_id": pid, "reason": props.NOT_CLAIMED.get(pid, "check not built yet in this round; see DESIGN.md section 6 for the plan")} for pid in ALL if pid not in props.PROPS]
m = {
    "version": 1,
    "setup_cmd": "./pv setup",
    "hooks": {
        "guard": "--cfg portus_verif",
        "enable": "none needed: every check drives portus through its public API (path dependency of /verif/harness on /repo); the guard name is reserved",
        "baseline_off_cmd": "cd /repo && cargo test --workspace --no-fail-fast --offline",
        "source_commits": [],
        "add_only": True,
    },
    "engines": [
        {"name": "coq-model+correspondence", "path": "coq/ ocaml/ harness/ lib/", "serves_properties": [c["property_id"] for c in checks],
         "kind_free_text": "Coq 8.16.1 development (executable Gallina model of portus + theorems, one Properties/Cnn.v per property), extracted to OCaml; a Rust harness crate with a path dependency on /repo runs the implementation on generated inputs; results are compared and the property's executable predicate is evaluated on the implementation's results"},
    ],
    "checks": checks,
    "not_applicable": na,
    "notes": "./pv setup builds everything offline. Every check rebuilds the harness against /repo's working tree (cargo, incremental), rebuilds the property's Coq cone, re-runs Print Assumptions, audits the sources for Admitted/Axiom/..., then runs the correspondence streams. KNOWN_FINDINGS.txt lists recorded findings and fixed defects.",
}
json.dump(m, open(os.path.join(ROOT, "MANIFEST.json"), "w"), indent=1)
print("wrote MANIFEST.json with %d checks, %d not claimed" % (len(checks), len(na)))
