#!/bin/bash
# usage: tryseed.sh <patch-file> <prop> [<prop> ...] : apply a seeded change to /repo, run the quick checks, undo
patch=$1; shift
git -C /repo status --short | grep -q . && { echo "/repo dirty, abort"; exit 2; }
git -C /repo apply $patch || exit 2
for p in "$@"; do ./pv check $p --tier quick 2>&1 | grep -E "VIOLATION|KNOWN-FINDING|^OK"; done
git -C /repo checkout -- .
git -C /verif checkout -- evidence 2>/dev/null
