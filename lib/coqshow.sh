#!/bin/bash
# usage: coqshow.sh <file.v> <line>  -- print goals just before <line>
f=$1; n=$2
d=/verif/.cache/coqshow; mkdir -p $d
head -n $((n-1)) "$f" > $d/Show_tmp.v
echo "Show. Abort." >> $d/Show_tmp.v
cd /verif/coq && timeout 120 coqc -Q theories Portus -Q gen PortusGen -Q Properties PortusProps -Q extract PortusExtract $d/Show_tmp.v 2>&1 | tail -${3:-40}
