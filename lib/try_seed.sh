#!/bin/bash
# usage: try_seed.sh <patch.diff> <Cnn> [<Cnn> ...]
# apply a seeded change to /repo, run the named checks (quick tier), undo the change straight afterwards
set -u
patch=$1; shift
cd /repo || exit 2
if ! git diff --quiet; then echo "/repo has uncommitted changes; refusing"; exit 2; fi
git apply "$patch" || { echo "patch does not apply"; exit 2; }
trap 'git -C /repo checkout -- . ; echo "[/repo restored]"' EXIT
cd /verif
for p in "$@"; do
  echo "== $p"
  timeout 1800 ./pv check "$p" --tier quick 2>/dev/null | grep -E "^(VIOLATION|KNOWN-FINDING|OK)" | cut -c1-300
done
