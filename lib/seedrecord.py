#!/usr/bin/env python3
"""Run the registered quick check(s) against every seeded change under seeded/ and record the outcome.
usage: seedrecord.py [id ...]     (run from a /verif root; uses /repo, which must be clean)
For each seeded/<id>/patch.diff: git -C /repo apply, ./pv check <prop> --tier quick, undo; writes
seeded/<id>/detect.json (violation lines, failed predicate / broken obligation of each replay)."""
import json, os, re, subprocess, sys
ROOT = os.path.dirname(os.path.dirname(os.path.abspath(__file__)))
ids = sys.argv[1:] or sorted(d for d in os.listdir(os.path.join(ROOT, "seeded")) if os.path.exists(os.path.join(ROOT, "seeded", d, "patch.diff")))
for sid in ids:
    d = os.path.join(ROOT, "seeded", sid)
    prop = sid[:3]
    if subprocess.run(["git", "-C", "/repo", "status", "--short"], capture_output=True, text=True).stdout.strip():
        sys.exit("/repo is not clean")
    if subprocess.run(["git", "-C", "/repo", "apply", os.path.join(d, "patch.diff")]).returncode != 0:
        print(sid, "patch does not apply"); continue
    try:
        p = subprocess.run([os.path.join(ROOT, "pv"), "check", prop, "--tier", "quick"], capture_output=True, text=True, cwd=ROOT)
    finally:
        subprocess.run(["git", "-C", "/repo", "checkout", "--", "."])
    lines = [l for l in p.stdout.splitlines() if l.startswith(("VIOLATION", "KNOWN-FINDING", "OK "))]
    reps = []
    for l in lines:
        m = re.search(r"replay=(\S+)", l)
        if m and os.path.exists(m.group(1)):
            b = json.load(open(m.group(1)))
            reps.append({"kind": b.get("kind"), "failed_predicate": b.get("failed_predicate"), "cmd": b.get("cmd"),
                         "arg": (b.get("arg") or "")[:600], "obligation": (b.get("obligation") or "")[:300],
                         "no_failing_input_found": l.rstrip().endswith("no-failing-input-found")})
    out = {"seed": sid, "property": prop, "check": "./pv check %s --tier quick" % prop, "exit_status": p.returncode,
           "detected": p.returncode == 1 and any(l.startswith("VIOLATION") for l in lines),
           "output_lines": [re.sub(r"replay=\S+/", "replay=", l) for l in lines], "replays": reps}
    json.dump(out, open(os.path.join(d, "detect.json"), "w"), indent=1)
    print(sid, "DETECTED" if out["detected"] else "MISSED", [r["failed_predicate"] or r["kind"] for r in reps][:3], flush=True)
subprocess.run(["git", "-C", ROOT, "checkout", "--", "evidence"])
