#!/usr/bin/env python3
"""Translator for the static tables of the language front end and of the encoder, read from the
source text on every run:
  src/lang/ast.rs        fn op           ordered operator spellings
                         fn command      the two commands
  src/lang/datapath.rs   Scope::new      built-in names, their register class, index and type
  src/lang/serialize.rs  serialize_op    opcodes
                         IntoIterator for Reg   class codes and index limits
Output: coq/gen/LangTables.v.  coq/theories/Lang/TablesTie.v proves that these are the tables of
the model (by computation), so a changed table breaks an obligation of C03 / C13 / C20 even when no
generated program exercises the entry.  Anything not recognised is emitted as an empty table or a
limit of 0, which makes the obligations fail to check."""
import os, re, sys

def read(p):
    try:
        return open(p).read()
    except OSError:
        return ""

def fn_body(src, header_re):
    m = re.search(header_re, src)
    if not m:
        return ""
    i = src.find("{", m.end() - 1)
    depth, j = 0, i
    while j < len(src):
        if src[j] == "{": depth += 1
        elif src[j] == "}":
            depth -= 1
            if depth == 0: return src[i:j + 1]
        j += 1
    return ""

def strip_comments(s):
    return re.sub(r"//[^\n]*", "", s)

OPS = {"Add": "OAdd", "And": "OAnd", "Bind": "OBind", "Div": "ODiv", "Equiv": "OEquiv", "Gt": "OGt", "Lt": "OLt",
       "Max": "OMax", "MaxWrap": "OMaxWrap", "Min": "OMin", "Mul": "OMul", "Or": "OOr", "Sub": "OSub", "Def": "ODef",
       "If": "OIf", "NotIf": "ONotIf", "Ewma": "OEwma"}
notes = []
def coqstr(s):
    if '"' in s or "\\" in s or any(ord(c) < 32 or ord(c) > 126 for c in s):
        notes.append("unprintable literal %r" % s); return None
    return 'lit "%s"' % s

ast = strip_comments(read("/repo/src/lang/ast.rs"))
dp = strip_comments(read("/repo/src/lang/datapath.rs"))
ser = strip_comments(read("/repo/src/lang/serialize.rs"))

# ---- operator spellings, in the order of the ordered choice
op_rows = []
body = fn_body(ast, r"fn\s+op\s*\(")
ok_ops = bool(body)
for m in re.finditer(r"map\(\s*(alt\(\((.*?)\)\)|tag\(\"((?:[^\"\\]|\\.)*)\"\))\s*,\s*\|_\|\s*Op::(\w+)\s*\)", body, re.S):
    tags = re.findall(r"tag\(\"((?:[^\"\\]|\\.)*)\"\)", m.group(1))
    if m.group(4) not in OPS: ok_ops = False; notes.append("unknown operator " + m.group(4)); continue
    for t in tags:
        c = coqstr(t)
        if c is None: ok_ops = False
        else: op_rows.append("(%s, %s)" % (c, OPS[m.group(4)]))
# every tag( of the function must have been accounted for
if body and len(re.findall(r"tag\(", body)) != len(op_rows): ok_ops = False; notes.append("op: unrecognised alternative")
if not ok_ops: op_rows = []

# ---- commands
cmd_rows = []
body = fn_body(ast, r"fn\s+command\s*\(")
for m in re.finditer(r"map\(\s*tag\(\"(\w+)\"\)\s*,\s*\|_\|\s*Command::(\w+)\s*\)", body):
    cmd_rows.append("(%s, %s)" % (coqstr(m.group(1)), {"Fallthrough": "Fallthrough", "Report": "CReport"}.get(m.group(2), "BAD")))
if any("BAD" in r or "None" in r for r in cmd_rows): cmd_rows = []

# ---- built-in names
bi_rows = []
body = fn_body(dp, r"pub\s+fn\s+new\s*\(\s*\)\s*->\s*Self")
ok_bi = bool(body)
blocks = re.findall(r"expand_reg!\(\s*sc\s*;\s*(\w+)\s*;(.*?)\)\s*;", body, re.S)
for cls, rows in blocks:
    if cls not in ("Primitive", "Implicit"): ok_bi = False; notes.append("built-ins: class " + cls)
    ents = re.findall(r"\"([^\"]+)\"\s*=>\s*Type::(Num|Bool)\(None\)", rows)
    if len(ents) != rows.count("=>"): ok_bi = False; notes.append("built-ins: unrecognised row")
    for i, (n, t) in enumerate(ents):
        bi_rows.append("(%s, %s %d (%s None))" % (coqstr(n), cls, i, "TNum" if t == "Num" else "TBool"))
if body and (len(blocks) != body.count("expand_reg!") or re.search(r"add_reg!|\.insert\(", body)): ok_bi = False; notes.append("built-ins: other insertions")
if not ok_bi or any("None," in r for r in bi_rows): bi_rows = []

# ---- opcodes
oc_rows = []
body = fn_body(ser, r"fn\s+serialize_op\s*\(")
for m in re.finditer(r"Op::(\w+)\s*=>\s*(\d+|unreachable!\(\))", body):
    if m.group(1) in OPS:
        oc_rows.append("(%s, %s)" % (OPS[m.group(1)], "None" if m.group(2).startswith("unreach") else "Some %s" % m.group(2)))
if body.count("=>") - 1 != len(oc_rows) and body.count("=>") != len(oc_rows): notes.append("opcodes: %d arms, %d recognised" % (body.count("=>"), len(oc_rows))); oc_rows = []

# ---- register classes: code(s) and index limit
body = fn_body(ser, r"impl\s+IntoIterator\s+for\s+Reg")
arms = re.split(r"\bReg::(?=\w+\s*(?:\(|=>))", body)
lim = {}
for a in arms[1:]:
    name = re.match(r"\w+", a).group(0)
    l = re.search(r"if\s+i\s*>\s*(\d+)", a)
    codes = re.findall(r"(\d+)u8", a.split("reg.map")[0])
    vol = re.search(r"if\s+is_volatile\s*\{\s*(\d+)u8\s*\}\s*else\s*\{\s*(\d+)u8\s*\}", a)
    lim[name] = (int(l.group(1)) if l else None, (int(vol.group(1)), int(vol.group(2))) if vol else (int(codes[0]),) * 2 if codes else None)
imm = re.search(r"num\s*==\s*u64::max_value\(\)\s*\|\|\s*num\s*<\s*\(1\s*<<\s*(\d+)\)", body)
def L(n): return lim.get(n, (None, None))[0] if lim.get(n, (None, None))[0] is not None else 0
def C(n, k): c = lim.get(n, (None, None))[1]; return c[k] if c else 255
out = []
out.append("(* generated by lib/gen_langtables.py from /repo/src/lang/{ast,datapath,serialize}.rs on every run; do not edit *)")
out.append("From Portus Require Import Ast Reg Scope.")
out.append("(* %s *)" % "; ".join(notes).replace("*)", "* )"))
out.append("Definition impl_op_table : list (list N * op) :=\n  [%s]." % ";\n   ".join(op_rows))
out.append("Definition impl_cmd_table : list (list N * command) :=\n  [%s]." % "; ".join(cmd_rows))
out.append("Definition impl_builtins : list (name * reg) :=\n  [%s]." % ";\n   ".join(bi_rows))
out.append("Definition impl_opcodes : list (op * option N) :=\n  [%s]." % "; ".join(oc_rows))
for n in ("Control", "Implicit", "Local", "Primitive", "Report", "Tmp"):
    out.append("Definition impl_lim_%s : N := %d." % (n.lower(), L(n)))
out.append("Definition impl_code_control_vol : N := %d.  Definition impl_code_control : N := %d." % (C("Control", 0), C("Control", 1)))
out.append("Definition impl_code_report_vol : N := %d.  Definition impl_code_report : N := %d." % (C("Report", 0), C("Report", 1)))
for n in ("ImmBool", "ImmNum", "Implicit", "Local", "Primitive", "Tmp"):
    out.append("Definition impl_code_%s : N := %d." % (n.lower(), C(n, 0)))
out.append("Definition impl_imm_bits : N := %s." % (imm.group(1) if imm else "0"))
text = "\n".join(out) + "\n"
path = os.path.join(os.path.dirname(os.path.dirname(os.path.abspath(__file__))), "coq", "gen", "LangTables.v")
os.makedirs(os.path.dirname(path), exist_ok=True)
old = open(path).read() if os.path.exists(path) else None
if old != text:
    open(path, "w").write(text)
print("ops=%d cmds=%d builtins=%d opcodes=%d %s" % (len(op_rows), len(cmd_rows), len(bi_rows), len(oc_rows), "; ".join(notes)))
