#!/usr/bin/env python3
"""Write seeded/<id>/meta.json from the stored deliverables (notes.md, patch.diff, confirm.txt, detect.json).
usage: seedmeta.py <round-label> <first-pass.json> id ...   first-pass.json: {id: "caught" | "missed: ..." | ...}"""
import json, os, re, sys
ROOT = os.path.dirname(os.path.dirname(os.path.abspath(__file__)))
label, fp = sys.argv[1], json.load(open(sys.argv[2]))
titles = {json.loads(l)["id"]: json.loads(l)["title"] for l in open(os.path.join(ROOT, "properties.jsonl"))}
for sid in sys.argv[3:]:
    d = os.path.join(ROOT, "seeded", sid)
    prop = sid[:3]
    notes = open(os.path.join(d, "notes.md")).read() if os.path.exists(os.path.join(d, "notes.md")) else ""
    head = [l.strip("# ").strip() for l in notes.splitlines() if l.strip()][:1]
    para = []
    for l in notes.splitlines()[1:]:
        if l.startswith("#"):
            if para: break
            continue
        if l.strip(): para.append(l.strip())
        elif para: break
    patch = open(os.path.join(d, "patch.diff")).read()
    files = sorted(set(re.findall(r"^\+\+\+ b/(\S+)", patch, re.M)))
    conf = open(os.path.join(d, "confirm.txt")).read() if os.path.exists(os.path.join(d, "confirm.txt")) else ""
    det = json.load(open(os.path.join(d, "detect.json"))) if os.path.exists(os.path.join(d, "detect.json")) else {}
    def grab(pat):
        m = re.search(pat, conf)
        return m.group(1).strip() if m else ""
    meta = {
        "seed": sid, "round": label, "property": prop, "property_title": titles.get(prop, ""),
        "change": (head[0] if head else "") + (": " + " ".join(para)[:700] if para else ""),
        "files": files,
        "origin": "written by a fresh sub-agent that saw only the property record, the ideas already taken for this property and a scratch worktree of /repo (nothing from /verif)",
        "confirmed": {
            "how": "lib/seedcheck.sh in a scratch worktree: existing suite with the change (demo excluded), demo with the change, demo after `git checkout -- src`",
            "existing_suite_with_change": grab(r"non-demo tests passed with change: (\d+)") + " tests and doc-tests pass",
            "demo_with_change": grab(r"demo with change: .*?:: (test result: [^\n]*)"),
            "demo_without_change": grab(r"demo without change: (test result: [^\n]*)"),
        },
        "first_pass_of_this_round": fp.get(sid, fp.get(prop, "")),
        "detected_now": bool(det.get("detected")),
        "detected_by": {"check": det.get("check"), "lines": det.get("output_lines", [])[:4],
                        "failed_predicates": sorted(set(filter(None, [r.get("failed_predicate") or r.get("kind") for r in det.get("replays", [])])))[:6]},
        "replay_the_seed": "git -C /repo apply /verif/seeded/%s/patch.diff; ./pv check %s --tier quick; git -C /repo checkout -- ." % (sid, prop),
    }
    json.dump(meta, open(os.path.join(d, "meta.json"), "w"), indent=1)
    print(sid, meta["detected_now"], meta["detected_by"]["failed_predicates"][:2])
