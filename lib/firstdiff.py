#!/usr/bin/env python3
"""show the first differing item of ' ; '-separated impl/model results for disagreeing cases"""
import sys
cases=open(sys.argv[1]).read().split('\n'); model=open(sys.argv[2]).read().split('\n')
n=int(sys.argv[3]) if len(sys.argv)>3 else 5
shown=0
for c,m in zip(cases,model):
    if not c: continue
    cmd,arg,impl=(c.split('\t')+['','',''])[:3]
    mm=m.split('\t')[0]
    if impl!=mm:
        a=impl.split(' ; '); b=mm.split(' ; ')
        i=0
        while i<min(len(a),len(b)) and a[i]==b[i]: i+=1
        print('ARG',arg.split(' | ')[:5])
        print('  at',i,'IMPL',a[max(0,i-2):i+3]); print('       MODEL',b[max(0,i-2):i+3])
        shown+=1
        if shown>=n: break
