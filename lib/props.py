"""Registry: per property, the Coq statement file, the harness streams, and evidence wording."""

TRUSTED_BASE = [
    "Coq 8.16.1 kernel (coqc), including vm_compute conversion; no native_compute",
    "axioms: none (every Print Assumptions must answer 'Closed under the global context')",
    "extraction to OCaml 4.13.1 with ExtrOcamlBasic only (Extract Inductive bool/option/unit/list/prod/sumbool/sumor, "
    "Extract Inlined Constant andb/orb as shipped by ExtrOcamlBasic); no Extract Constant of our own",
    "hand-written glue: ocaml/*.ml (hex<->N, line protocol), harness/src/*.rs (generators, canonical printing), lib/*.py",
    "the model is hand-written; it is tied to /repo by the correspondence run of this check (same inputs through "
    "the built crate and the extracted model, results compared; the property's executable predicate is also "
    "evaluated on the implementation's results)",
]


def typed_or_err(r):
    i = r["impl"]
    return i.startswith("ERR") or " CR " in i or " MS " in i or " RDY " in i



import re as _re


def NT_C02(r): return " REP " in (" " + r["impl"]) or "CLOSE h" in r["impl"]
def NT_C05(r): return "CHG " in r["impl"]
def NT_C09(r): return len(set(_re.findall(r"(?:CHG|UPD) (a[0-9a-f]+)", r["impl"]))) >= 2
def NT_C11(r): return "CMD ok" in r["impl"] and "CMD err" in r["impl"]
def NT_C12(r): return "GET OK" in r["impl"] and any(x in r["impl"] for x in ("GET STALE", "GET NOTFOUND", "GET REGTYPE", "GET INVALIDREPORT"))
def NT_C15(r): return len(set(_re.findall(r"NEW h\d+ (i\d+)", r["impl"]))) >= 2
def NT_C16(r): return "RAW:" in r["arg"] or "SENDFAIL" in r["impl"]
def NT_C18(r): return " ; S" in r["arg"] or "stop0=1" in r["arg"] or "| S " in r["arg"]

LANG_NOTE = ("Coq kernel; no axioms; hand-written character-level model of the nom parsers (src/lang/ast.rs, prog.rs), of Scope/compile_expr/compile_prog (datapath.rs), "
             "lang::compile (mod.rs) and the image encoder (serialize.rs); tied to the code by compiling the same byte strings with portus::lang and with the extracted model and comparing "
             "image bytes and the scope's answer (class, index, volatility, type and initial value) for every name occurring in the text. "
             "The static tables (operator spellings and commands of ast.rs, the built-in names of Scope::new, the opcodes, class codes, index limits and immediate bound of serialize.rs) "
             "are additionally read from the source on every run by lib/gen_langtables.py (regular expressions; anything unrecognised becomes an empty table) into gen/LangTables.v and proved "
             "equal to the model's tables (Lang/TablesTie.v; obligations C03_source_*, C13_source_*, C14_source_*, C20_source_*).")

NOT_CLAIMED = {}

PROPS = {
    "C04": {
        "traced_too": True,
        "coq": "Properties/C04.v",
        "level_text": "Theorem C04_decode_total_sound proves, for every byte string, that the decoder model never panics, "
                      "makes progress within the buffer, and produces a typed message only for the right 16-bit type code "
                      "and a covering declared length with every field equal to the little-endian value at its offset. "
                      "The model is tied to the code by running Msg::from_buf and the extracted model on the same ~34k "
                      "(quick) generated buffers and by evaluating the theorem's own predicate on the implementation's results.",
        "level_note": "Coq kernel; no axioms; hand-written model of src/serialize/*.rs validated differentially (grid + mutation + random); "
                      "the unsafe u8->u32 transmute is observed, not proved.",
        "streams": ["c04"],
        "rule": "grid over (16-bit type code, declared length, actual length) with five structured payload kinds, "
                "boundary declared lengths against larger buffers, mutated encodings of valid messages, raw random "
                "strings; a case is non-trivial when the decoder returned a typed message or an error (not the "
                "catch-all unknown message); distinct by input bytes",
        "nontrivial": typed_or_err,
        "assumptions": [
            "the unsafe &[u8]->&[u32] transmute reads little-endian words (observed by the correspondence run on this machine, not proved)",
        ],
    },
    "C07": {
        "traced_too": True,
        "coq": "Properties/C07.v",
        "level_text": "Theorems C07_roundtrip, C07_roundtrip_framed and C07_concat prove for every in-range create/measurement/ready "
                      "message that encoding succeeds, decoding consumes exactly the encoded length and returns the same message, "
                      "also when followed by arbitrary bytes, and that concatenations decode back to the same sequence. "
                      "Tied to the code by round-tripping all name lengths 0..64 and field counts 0..255 through portus and the model.",
        "level_note": "Coq kernel; no axioms; hand-written model validated differentially; libccp-emitted messages are covered by the cref stream once built.",
        "streams": ["c07"],
        "rule": "every name length 0..64, every field count 0..255, boundary/random u32 and u64 values, out-of-range "
                "messages (count mismatch, NUL inside the name), concatenations of 1..8 messages; non-trivial = "
                "in-range message that encoded (the round-trip predicate applied); distinct by message",
        "nontrivial": lambda r: r["verdict"] == "ok",
        "assumptions": [
            "messages emitted by the real libccp are compared in the C06/C07 libccp stream when cref is built",
        ],
    },
    "C08": {
        "traced_too": True,
        "coq": "Properties/C08.v",
        "level_text": "Theorem C08_stale_free proves that iterating Backend::next's model from a fresh cursor over a receive buffer "
                      "of any size and any (stale) contents yields exactly a function of the scripted datagrams alone, for every "
                      "script of datagrams, receive errors and stop requests; C08_wellformed gives exact in-order delivery with "
                      "sender attribution for well-formed datagrams, C08_progress that every call advances. Tied to the code by "
                      "running Backend::next over a scripted Ipc on the same scripts (truncation sweep + ~5k random scripts quick).",
        "level_note": "Coq kernel; no axioms; model of Backend::next/get_next_read (src/ipc/mod.rs) with the buffer's stale bytes "
                      "modelled explicitly; validated differentially over buffer sizes 64..1024.",
        "streams": ["c08"],
        "rule": "exhaustive truncation sweep of the middle datagram of a fixed 3-datagram family (two buffer sizes); random "
                "scripts of 1..6 datagrams from 3 senders with 1..4 messages each, later datagrams shorter than earlier ones, "
                "truncated tails, bit flips, junk suffixes, receive errors; non-trivial = at least two messages yielded; "
                "distinct by script",
        "nontrivial": lambda r: r["impl"].count(" ; ") >= 1,
        "exhaustive": False,
        "assumptions": [
            "Ipc::recv returns at most the buffer length (true of the scripted transport and of the bundled ones after the chan fix)",
        ],
    },
    "C02": {
        "traced_too": True,
        'coq': 'Properties/C02.v',
        'streams': ['loop', 'loopadv'],
        'level_text': "C02_create / C02_measure characterise one dispatch step against the flat (address, flow id) -> handler view for every state, message, user behaviour and send-failure pattern (fresh handler per create with the message's details, replaced handler dropped without close, measurement delivered to exactly the bound handler with uid and values intact, empty measurement closes once and unbinds, unknown datapath/flow: nothing); C02_handlers_distinct gives distinct, never-reused handler identities in every reachable state. C02_the_history_is_what_the_datagrams_decode_to / C02_every_run_ends_in_a_good_state (Runtime/RunTrace.v): what the executable run_model emits is the effects of the trace of a history from the initial state followed by the final drops; that history is what the script's datagrams decode to one at a time (spec_run) up to a step that ended the run; the state it ends in satisfies the handler invariants. So the step and history theorems are theorems about every run.",
        'level_note': 'Coq kernel; no axioms; hand-written model of run_inner (src/run.rs), Datapath/Report (src/lib.rs) and Backend::next, with user callbacks and send failures as arbitrary oracles; tied to the code by running RunBuilder::run inline over a scripted Ipc with recording algorithms on the same histories (model and implementation logs compared after sorting hash-ordered DROP/INSTALL batches and renaming uids through the install messages). Assumes handles are used only inside the three callbacks.',
        'rule': 'structured random histories over 3 addresses x 4 flow ids: ready / create (9 algorithm names incl. prefixes, extensions, empty, 63 bytes) / measurement for live and dead flows / close / unknown, 1-4 messages per datagram (occasionally 10-14, exceeding the 1024-byte buffer), restarts, re-creates, receive errors, stop requests; 0-3 additional algorithms with duplicate names and absent instances, 6 table programs incl. a duplicate name and an uncompilable one; callbacks issue set_program/update_field/get_field lists; non-trivial = at least one report delivered or handler closed',
        'assumptions': ["a flow's datapath handle is used only inside new_flow / on_report / close (not from Drop, not smuggled out)", 'program uids are canonicalised through the install messages; DROP and INSTALL batches are sorted before comparison (HashMap order)'],
        "nontrivial": NT_C02,
    },
    "C05": {
        "traced_too": True,
        'coq': 'Properties/C05.v',
        'streams': ['loop', 'loopadv'],
        'level_text': 'C05_use_after_install proves over the interleaved trace of every history (all user behaviours, all send-failure patterns) that each change-program names a uid installed at its destination since that destination last said ready; C05_ready_installs_all / C05_create_installs_first give the exact install policy. C05_partial_program_set_never_runs (Runtime/StartFacts.v): when one offered program does not compile or its install message cannot be encoded, the run ends with an error before the receive loop and its only effect is closing the transport: a set is installed whole or the runtime does not run. C05_every_run_is_a_trace_with_install_before_use (Runtime/RunTrace.v): every run of the executable model is such a trace (or refused to start), so install-before-use holds of every run. C05_nothing_else_installs: an install among the effects of a step comes from a ready or from a create of a not yet known address, and goes to the sender.',
        'level_note': 'Coq kernel; no axioms; hand-written model of run_inner (src/run.rs), Datapath/Report (src/lib.rs) and Backend::next, with user callbacks and send failures as arbitrary oracles; tied to the code by running RunBuilder::run inline over a scripted Ipc with recording algorithms on the same histories (model and implementation logs compared after sorting hash-ordered DROP/INSTALL batches and renaming uids through the install messages). Assumes handles are used only inside the three callbacks.',
        'rule': 'structured random histories over 3 addresses x 4 flow ids: ready / create (9 algorithm names incl. prefixes, extensions, empty, 63 bytes) / measurement for live and dead flows / close / unknown, 1-4 messages per datagram (occasionally 10-14, exceeding the 1024-byte buffer), restarts, re-creates, receive errors, stop requests; 0-3 additional algorithms with duplicate names and absent instances, 6 table programs incl. a duplicate name and an uncompilable one; callbacks issue set_program/update_field/get_field lists; non-trivial = at least one change-program sent',
        'assumptions': ["a flow's datapath handle is used only inside new_flow / on_report / close (not from Drop, not smuggled out)", 'program uids are canonicalised through the install messages; DROP and INSTALL batches are sorted before comparison (HashMap order)'],
        "nontrivial": NT_C05,
    },
    "C09": {
        "traced_too": True,
        'coq': 'Properties/C09.v',
        'streams': ['loop', 'loopadv', 'isolate', 'unixapi'],
        'level_text': "C09_frame: a message from address a leaves every binding (b, s), b<>a, untouched; C09_restart_discards_own_flows_only; C09_handle_origin (invariant over all histories) and C09_commands_go_to_origin: every handle command is sent to the creating address with the flow's id. C09_every_reply_goes_to_the_sender (Runtime/OriginFacts.v): over the interleaved trace of every history from the initial state, everything transmitted while a message is handled (installs, change-program, update-fields, failed sends) is addressed to that message's sender.",
        'level_note': 'Coq kernel; no axioms; hand-written model of run_inner (src/run.rs), Datapath/Report (src/lib.rs) and Backend::next, with user callbacks and send failures as arbitrary oracles; tied to the code by running RunBuilder::run inline over a scripted Ipc with recording algorithms on the same histories (model and implementation logs compared after sorting hash-ordered DROP/INSTALL batches and renaming uids through the install messages). Assumes handles are used only inside the three callbacks.',
        'rule': 'isolate: the implementation alone on a history and on the same history restricted to one address (what that datapath sees must be the same; 1 500 / 30 000 pairs); loopadv additionally draws the addresses of a third of its histories from pairs of distinct 64-bit addresses that a digest-keyed table would confuse (equal low 32 bits of the standard hasher, equal modulo 2^32, equal modulo 2^8); structured random histories over 3 addresses x 4 flow ids: ready / create (9 algorithm names incl. prefixes, extensions, empty, 63 bytes) / measurement for live and dead flows / close / unknown, 1-4 messages per datagram (occasionally 10-14, exceeding the 1024-byte buffer), restarts, re-creates, receive errors, stop requests; 0-3 additional algorithms with duplicate names and absent instances, 6 table programs incl. a duplicate name and an uncompilable one; callbacks issue set_program/update_field/get_field lists; non-trivial = commands sent to at least two different addresses',
        'assumptions': ["a flow's datapath handle is used only inside new_flow / on_report / close (not from Drop, not smuggled out)", 'program uids are canonicalised through the install messages; DROP and INSTALL batches are sorted before comparison (HashMap order)'],
        "nontrivial": NT_C09,
    },
    "C11": {
        "traced_too": True,
        'coq': 'Properties/C11.v',
        'streams': ['loop', 'apiorder'],
        'level_text': "C11_set_program_refuses / C11_update_field_refuses / C11_set_program_succeeds / C11_set_program_accepts / C11_update_field_succeeds / C11_update_field_accepts / C11_update_field_too_many: a command succeeds iff the program is known and every field is controllable (an update also: at most 255 fields, the message counts them in 8 bits); refusal transmits nothing, success transmits exactly one message with the flow id, the program's uid and the pairs in order.",
        'level_note': 'Coq kernel; no axioms; hand-written model of run_inner (src/run.rs), Datapath/Report (src/lib.rs) and Backend::next, with user callbacks and send failures as arbitrary oracles; tied to the code by running RunBuilder::run inline over a scripted Ipc with recording algorithms on the same histories (model and implementation logs compared after sorting hash-ordered DROP/INSTALL batches and renaming uids through the install messages). Assumes handles are used only inside the three callbacks.',
        'rule': 'structured random histories over 3 addresses x 4 flow ids: ready / create (9 algorithm names incl. prefixes, extensions, empty, 63 bytes) / measurement for live and dead flows / close / unknown, 1-4 messages per datagram (occasionally 10-14, exceeding the 1024-byte buffer), restarts, re-creates, receive errors, stop requests; 0-3 additional algorithms with duplicate names and absent instances, 6 table programs incl. a duplicate name and an uncompilable one; callbacks issue set_program/update_field/get_field lists; non-trivial = both an accepted and a refused command in the history',
        'assumptions': ["a flow's datapath handle is used only inside new_flow / on_report / close (not from Drop, not smuggled out)", 'program uids are canonicalised through the install messages; DROP and INSTALL batches are sorted before comparison (HashMap order)'],
        "nontrivial": NT_C11,
    },
    "C12": {
        "traced_too": True,
        'coq': 'Properties/C12.v',
        'streams': ['loop'],
        'level_text': 'C12_stale / C12_same_program / C12_value_from_own_slot_only / C12_too_short: a complete case split of Report::get_field; a value comes only from the slot the scope gives that name. Tied to the compiler (Runtime/SlotReads.v): under the scope invariant of compiled programs (C12_compiled_scopes_satisfy_the_invariant) two different names read two different positions (C12_distinct_names_read_distinct_positions) and a full-length report has every slot (C12_full_report_has_every_slot).',
        'level_note': 'Coq kernel; no axioms; hand-written model of run_inner (src/run.rs), Datapath/Report (src/lib.rs) and Backend::next, with user callbacks and send failures as arbitrary oracles; tied to the code by running RunBuilder::run inline over a scripted Ipc with recording algorithms on the same histories (model and implementation logs compared after sorting hash-ordered DROP/INSTALL batches and renaming uids through the install messages). Assumes handles are used only inside the three callbacks.',
        'rule': 'every lookup through an own scope is repeated through a compilation made on another thread right after two failing compilations; every case\'s runtime runs on a thread of its own; structured random histories over 3 addresses x 4 flow ids: ready / create (9 algorithm names incl. prefixes, extensions, empty, 63 bytes) / measurement for live and dead flows / close / unknown, 1-4 messages per datagram (occasionally 10-14, exceeding the 1024-byte buffer), restarts, re-creates, receive errors, stop requests; 0-3 additional algorithms with duplicate names and absent instances, 6 table programs incl. a duplicate name and an uncompilable one; callbacks issue set_program/update_field/get_field lists; non-trivial = a successful lookup and at least one refusal',
        'assumptions': ["a flow's datapath handle is used only inside new_flow / on_report / close (not from Drop, not smuggled out)", 'program uids are canonicalised through the install messages; DROP and INSTALL batches are sorted before comparison (HashMap order)'],
        "nontrivial": NT_C12,
    },
    "C15": {
        "traced_too": True,
        'coq': 'Properties/C15.v',
        'streams': ['loop'],
        'level_text': 'C15_default_when_no_match / C15_most_recent_match_wins / C15_create_uses_pick specify sealed::Pick; C15_every_offered_program_is_compiled / C15_compiled_program_was_offered specify the program union.',
        'level_note': 'Coq kernel; no axioms; hand-written model of run_inner (src/run.rs), Datapath/Report (src/lib.rs) and Backend::next, with user callbacks and send failures as arbitrary oracles; tied to the code by running RunBuilder::run inline over a scripted Ipc with recording algorithms on the same histories (model and implementation logs compared after sorting hash-ordered DROP/INSTALL batches and renaming uids through the install messages). Assumes handles are used only inside the three callbacks.',
        'rule': 'structured random histories over 3 addresses x 4 flow ids: ready / create (9 algorithm names incl. prefixes, extensions, empty, 63 bytes) / measurement for live and dead flows / close / unknown, 1-4 messages per datagram (occasionally 10-14, exceeding the 1024-byte buffer), restarts, re-creates, receive errors, stop requests; 0-3 additional algorithms with duplicate names and absent instances, 6 table programs incl. a duplicate name and an uncompilable one; callbacks issue set_program/update_field/get_field lists; non-trivial = flows handled by at least two different algorithm instances',
        'assumptions': ["a flow's datapath handle is used only inside new_flow / on_report / close (not from Drop, not smuggled out)", 'program uids are canonicalised through the install messages; DROP and INSTALL batches are sorted before comparison (HashMap order)'],
        "nontrivial": NT_C15,
    },
    "C16": {
        "traced_too": True,
        'coq': 'Properties/C16.v',
        'streams': ['loopadv', 'ignore', 'unixapi'],
        'level_text': 'C16_run_never_panics: for every script of arbitrary datagrams, receive errors, stop requests, user behaviour and send-failure pattern the run returns Ok or Err (no panic, fuel suffices); C16_ignored_inert: ignored messages return the state unchanged. C16_ignored_message_is_transparent (Runtime/IgnoreFacts.v): over whole histories, an ignored message inserted after any prefix (or removed) leaves the state reached and every effect emitted unchanged.',
        'level_note': 'Coq kernel; no axioms; hand-written model of run_inner (src/run.rs), Datapath/Report (src/lib.rs) and Backend::next, with user callbacks and send failures as arbitrary oracles; tied to the code by running RunBuilder::run inline over a scripted Ipc with recording algorithms on the same histories (model and implementation logs compared after sorting hash-ordered DROP/INSTALL batches and renaming uids through the install messages). Assumes handles are used only inside the three callbacks.',
        'rule': 'unixapi: the address the real unix transport reports for a sender is the address it is bound to, verbatim (relative and absolute); structured random histories over 3 addresses x 4 flow ids: ready / create (9 algorithm names incl. prefixes, extensions, empty, 63 bytes) / measurement for live and dead flows / close / unknown, 1-4 messages per datagram (occasionally 10-14, exceeding the 1024-byte buffer), restarts, re-creates, receive errors, stop requests; 0-3 additional algorithms with duplicate names and absent instances, 6 table programs incl. a duplicate name and an uncompilable one; callbacks issue set_program/update_field/get_field lists; adversarial datagrams (every type code 0..8, 200, 255, wide codes, truncated/oversized payloads, random bytes, >1024-byte datagrams) and one injected send failure at a random position in a third of the cases; non-trivial = history contains raw adversarial bytes or a failed send',
        'assumptions': ["the bundled channel transport's own behaviour on oversized datagrams is checked under C19"],
        "nontrivial": NT_C16,
    },
    "C18": {
        "traced_too": True,
        'coq': 'Properties/C18.v',
        'streams': ['loopadv', 'apiorder', 'unixapi'],
        'level_text': 'PARTIAL. C18_stopped_ends / C18_stop_request_ends / C18_dead_channel_is_error / C18_close_is_last prove the flag logic of get_next_read and the end of run_inner on the model. Wall-clock latency and the Arc reference count cannot be exhibited by the model; the correspondence run observes recv calls after the stop (0), Arc::strong_count (back to 1), the close call and the result.',
        'level_note': 'Coq kernel; no axioms; hand-written model of run_inner (src/run.rs), Datapath/Report (src/lib.rs) and Backend::next, with user callbacks and send failures as arbitrary oracles; tied to the code by running RunBuilder::run inline over a scripted Ipc with recording algorithms on the same histories (model and implementation logs compared after sorting hash-ordered DROP/INSTALL batches and renaming uids through the install messages). Assumes handles are used only inside the three callbacks.',
        'rule': 'apiorder: nine orders of with_stop_handle / with_raw_stop_handle / default_alg / spawn_thread and kill on an idle transport; unixapi: an idle runtime on a real unix socket made by each of the five constructors returns within 3.5 s of the stop request; structured random histories over 3 addresses x 4 flow ids: ready / create (9 algorithm names incl. prefixes, extensions, empty, 63 bytes) / measurement for live and dead flows / close / unknown, 1-4 messages per datagram (occasionally 10-14, exceeding the 1024-byte buffer), restarts, re-creates, receive errors, stop requests; 0-3 additional algorithms with duplicate names and absent instances, 6 table programs incl. a duplicate name and an uncompilable one; callbacks issue set_program/update_field/get_field lists; non-trivial = the script contains a stop request or starts stopped',
        'assumptions': ["a flow's datapath handle is used only inside new_flow / on_report / close (not from Drop, not smuggled out)", 'program uids are canonicalised through the install messages; DROP and INSTALL batches are sorted before comparison (HashMap order)'],
        "nontrivial": NT_C18,
    },
    "C10": {
        "traced_too": True,
        "coq": "Properties/C10.v",
        "level_text": "C10_compiler_total proves for every byte string and override list that compile_and_serialize's model returns an image or an "
                      "error — never Panic (each unreachable!/unwrap/assert/overflow site of the modelled code is a Panic outcome) and never out of "
                      "fuel (C10_parser_terminates: the parser always terminates); C10_runtime_reports: an uncompilable program makes run return Err.",
        "level_note": "Coq kernel; no axioms; hand-written character-level model of the nom parsers (src/lang/ast.rs, prog.rs), of Scope/compile_expr/compile_prog (datapath.rs), lang::compile (mod.rs) and the image encoder (serialize.rs); tied to the code by compiling the same byte strings with portus::lang and with the extracted model and comparing image bytes and the scope's answer (class, index, volatility, type and initial value) for every name occurring in the text.",
        "streams": ["c10", "limits"],
        "rule": "limits: 254..257 variables of one kind, in one spelling or split across the two; multi-byte characters around fifteen plausible cut points of the unparsed remainder; exhaustive token sequences (26-token alphabet) up to length 2 raw and up to length 2-3 in five holes of a valid skeleton, a sixth of "
                "the length-3 raw ones (thorough: all up to 4), random sequences of 4-12 tokens, valid programs with one token replaced/inserted/"
                "deleted, ill-placed constructs, counter limits (15..300 declarations/locals), nesting depth up to 64, byte-level mutations incl. "
                "invalid UTF-8 and non-ASCII letters whose low byte is alphanumeric, raw random bytes; non-trivial = the source gets past the "
                "parser's first form (result differs between at least ... ) — counted as: accepted programs plus rejected ones of length >= 12 bytes",
        "nontrivial": lambda r: r["impl"].startswith("OK") or len(r["arg"].split(" ")[0]) >= 24,
        "assumptions": ["native stack exhaustion on deep nesting is a runtime matter the model cannot exhibit; the stream runs depth 64"],
    },
    "C13": {
        "traced_too": True,
        "coq": "Properties/C13.v",
        "level_text": "C13_declared_slots proves for every declaration list with names distinct from each other and from the built-ins that report "
                      "variable k gets report slot k (exactly 0..n-1), control variable k control slot k, with declared volatility and initial value, "
                      "built-ins untouched; C13_builtin_primitives/implicits pin the ABI by computation. C13_overrides* (Lang/OverrideFacts.v): compile-time overrides change the initial value of exactly the named "
                      "variable and allocate nothing; C13_names_keep_their_registers through the lowering of any events. C13_only_locals_wait_for_a_type / C13_declared_variables_keep_declared_types (Lang/DeclTypes.v): "
                      "in every scope lang::compile returns, for every source text and overrides, a register whose type is an unresolved name is a local and the name is a local's, so a declared variable "
                      "carries its declared type and initial value or none (rings of untyped locals included; example proved).",
        "level_note": "Coq kernel; no axioms; hand-written character-level model of the nom parsers (src/lang/ast.rs, prog.rs), of Scope/compile_expr/compile_prog (datapath.rs), lang::compile (mod.rs) and the image encoder (serialize.rs); tied to the code by compiling the same byte strings with portus::lang and with the extracted model and comparing image bytes and the scope's answer (class, index, volatility, type and initial value) for every name occurring in the text.",
        "streams": ["limits", "compile"],
        "rule": "declaration lists with 0/1/15/16/17 report x 0/1/15/16/17 control x 0/1/5/6/7 local variables in three order styles (Report block, "
                "legacy Report.x, mixed) with overrides, operator chains around the temporary limit, plus generated programs; "
                "non-trivial = accepted program declaring at least two variables; distinct by source",
        "nontrivial": lambda r: r["impl"].startswith("OK") and (r["impl"].count(",R") + r["impl"].count(",C") + r["impl"].count(" R") + r["impl"].count(" C")) >= 2,
        "assumptions": [],
    },
    "C14": {
        "traced_too": True,
        "coq": "Properties/C14.v",
        "level_text": "C14_numeral (a numeral is its value or a hard failure, never a name), C14_small_accepted / C14_infinity / C14_unencodable_rejected / "
                      "C14_read_back_exact (the immediate the datapath reads back is exactly the literal's denotation), C14_no_silent (a serialized program "
                      "contains only encodable immediates), C14_initial_values (overrides and initial values go through the same encoder).",
        "level_note": "Coq kernel; no axioms; hand-written character-level model of the nom parsers (src/lang/ast.rs, prog.rs), of Scope/compile_expr/compile_prog (datapath.rs), lang::compile (mod.rs) and the image encoder (serialize.rs); tied to the code by compiling the same byte strings with portus::lang and with the extracted model and comparing image bytes and the scope's answer (class, index, volatility, type and initial value) for every name occurring in the text.",
        "streams": ["c14"],
        "rule": "literals: every 53rd value of 0..65535 (thorough: all), 2^k-1, 2^k, 2^k+1 for k<=70, 20-30 digit numerals, leading zeros, random "
                "u31/u32/u64/over-long values, each in five positions (control and report definition, bind value, comparison operand, arithmetic operand), "
                "and u32 overrides of control and report variables; non-trivial = every case (each is a distinct literal/position pair)",
        "nontrivial": lambda r: True,
        "assumptions": [],
    },
    "C06": {
        "coq": "Properties/C06.v",
        "level_text": "C06_changeprog_honest / C06_update_honest / C06_install_honest prove for every message the encoder model produces that the header "
                      "length field equals the true byte length and the count fields the number of records; C06_updates_parse_back that the 13-byte update "
                      "records parse back, under libccp's packed layout, to exactly the (class, index, value) updates given, in order; "
                      "C06_unrepresentable_length_fails that an over-long message is refused. Acceptance by libccp is observed: the bytes portus produces are fed to "
                      "the compiled libccp 1.2.0 C code and to the Coq model of it, and return codes, staged values and register dumps are compared.",
        "level_note": "Coq kernel; no axioms; encoder model validated differentially through the loop stream (handle commands) and this stream; libccp 1.2.0 (vendored, "
                      "checksummed, compiled unmodified with gcc under a scripted clock) is the reference datapath: an oracle, not verified.",
        "streams": ["c06", "loop", "loopadv", "c14"],
        "rule": "loopadv: commands after failed sends; a ninth table program that places shared control names at other indices; update lists of every 7th length 0..300 (thorough: all) plus 126..129, 221..223, 254..257 in change-program and update-fields messages; 22 register kinds "
                "(every class, boundary indices, immediates) x 5 boundary values; programs of 1..4000 statements (image sizes straddling 65535 bytes and libccp's "
                "255-instruction limit); each message is read by the real libccp and by its model, then an invocation shows the staged values; "
                "non-trivial = libccp accepted at least one message of the case (M0) — distinct by script",
        "nontrivial": lambda r: " M0" in r["impl"] or r["cmd"] == "ctlser",
        "assumptions": ["u32 overflow of the length formulas needs >= 2^28 records (a 4 GiB message): outside the modelled domain",
                        "libccp reads the update-fields count as one signed byte and accepts at most 222 updates: beyond that it refuses the message (observed, modelled)"],
    },
    "C17": {
        "traced_too": True,
        "coq": "Properties/C17.v",
        "level_text": "PARTIAL. C17_unique proves for every number of threads, compilations and every interleaving of their atomic operations that the uids handed out are "
                      "pairwise distinct; the operation list it is about (gen/UidOps.v) is regenerated on every run from the body of get_next_uid! by a small translator, and the "
                      "proof term contains eq_refl : is_atomic uid_ops = true, which stops type-checking if the macro is no longer a single fetch_add. Hardware atomicity of "
                      "AtomicU32::fetch_add is trusted. The stress stream compiles from 1..16 threads concurrently and checks all uids pairwise distinct, clones equal, per-thread increasing.",
        "level_note": "Coq kernel; no axioms; translator lib/gen_uidops.py (regular expressions over the macro body, the static's declaration and Scope::new); atomicity and memory ordering of the hardware/Rust atomic are trusted.",
        "streams": ["c17", "loop"],
        "rule": "loop: the uid a change-program message carries is one installed at its destination (thirteen table programs, more than ten in one runtime); N in {1,2,4,8,16} threads x 2000 compilations each (thorough: up to 50000) of two valid and two invalid sources, started together behind a barrier, two repetitions; "
                "non-trivial = a run with at least two threads; distinct by (threads, m, repetition)",
        "nontrivial": lambda r: "threads=1 " not in r["arg"],
        "search_with_thorough": True,
        "assumptions": ["AtomicU32::fetch_add is atomic (hardware / Rust memory model)"],
    },
    "C19": {
        "coq": "Properties/C19.v",
        "level_text": "PARTIAL. C19_fifo_exactly_once / C19_per_sender_prefix prove, over an abstract reliable FIFO, that for every interleaving of sends and receives the received datagrams "
                      "followed by the queued ones are exactly the sent ones in order (intact, once, boundaries kept); C19_nonblocking_empty_is_error, C19_oversized_is_error, C19_dead_handle_is_error. "
                      "C19_boundaries_survive_to_the_decoder (Conc/TransportCursor.v) composes the transport with the model of Backend::next: for every interleaving the receive path never panics and yields "
                      "exactly what the datagrams received so far decode to, each on its own and tagged with its sender, those datagrams being a prefix of the ones sent (example with two senders proved). "
                      "That crossbeam's channel and the kernel's Unix datagram queue are such FIFOs cannot be exhibited by the model: the stress stream runs real threads and sockets "
                      "(1-4 senders, bursts of thousands, sizes 13..1024, per-sender sequence numbers and checksums, sender address check, non-blocking empty receive, oversized datagrams, dead handle).",
        "level_note": "Coq kernel; no axioms; the FIFO hypothesis (crossbeam unbounded channel, AF_UNIX SOCK_DGRAM) is assumed by the model and observed by the run.",
        "streams": ["c19", "unixapi"],
        "rule": "unixapi: 600 consecutive sends to one destination, then other destinations, then a third party sending to the sender; channel transport: 1-4 concurrent senders x 5000/n datagrams (thorough 100000/n), portus-side send burst, non-blocking empty receive, oversized datagrams of 1025/2048/70000 bytes, "
                "send through a handle whose backend was dropped; Unix transport: 1-3 sender sockets x 3000/n datagrams with sender-address check, non-blocking empty receive; "
                "non-trivial = every scenario (each is distinct)",
        "nontrivial": lambda r: True,
        "assumptions": ["crossbeam::channel::unbounded and the kernel's Unix datagram sockets are reliable FIFOs per sender",
                        "a full Unix socket queue makes send fail (kernel flow control); the sender retries: not counted as loss"],
    },
    "C01": {
        "traced_too": True,
        "coq": "Properties/C01.v",
        "level_text": "PROVED end to end on the model: C01_compile_correct. For every source text in the property's quantifier (accepted by the compiler and by the datapath, well typed under "
                      "the documented discipline -- which includes a bind whose target is itself a bind, with the left-to-right meaning (C01_example_bind_into_a_bind) --, no operand overwritten before use, no legacy-infinity initial value) and every finite sequence of 64-bit measurement vectors, the image the compiler model "
                      "emits, wrapped in the install message, read by the libccp model, selected by a change-program message and run, yields invocation by invocation the same fault code, window and rate "
                      "settings, report contents and variable values as the source semantics (an independent tree-walking evaluator over names). Layers proved separately for all register states: "
                      "C01_expression_simulation, C01_events_simulation; C01_operators_agree; each hypothesis is shown necessary by a refutation witness (C01_clobbers_refuted: the recorded finding; "
                      "C01_unbounded_inputs_refuted). The tie of the two models to the code is checked on every run by three correspondence legs: portus' compiler vs the compiler model (byte-identical images, "
                      "C03/C10/C13 streams), the libccp model vs the compiled libccp C code, and the source semantics vs what the real "
                      "libccp does with the bytes portus produced (return code, cwnd/rate callbacks, report bytes and all registers after every invocation).",
        "level_note": "Coq kernel (vm_compute for the witnesses); no axioms; libccp 1.2.0 compiled unmodified is the reference datapath (oracle); SrcSem is a specification written "
                      "independently of the compiler model (no registers/temporaries/placeholders); libccp's legacy reading of an initial value 0x3fffffff as infinity puts such programs outside the quantifier.",
        "streams": ["dp"],
        "rule": "grammar-generated well-typed programs (0-17 report and control variables, locals, 1-4 events, all 16 operators in both spellings, if/!if/ewma binds, report/fallthrough) "
                "compiled by portus, installed with a change-program carrying 0-2 control/cwnd/rate updates, run for 1-12 invocations (thorough: up to 80) with boundary-heavy "
                "primitive vectors (0, 1, 2^31, 2^32-1, 2^63, 2^64-1, random) and monotone clocks, update-fields messages in between; five hand-written nested-bind programs; "
                "non-trivial = at least one invocation ran and the program is inside the quantifier (predicate applied: ok or FAIL); distinct by (program, script)",
        "nontrivial": lambda r: (r["verdict"] == "ok" or r["verdict"].startswith("FAIL")) and " I0" in r["impl"],
        "assumptions": ["libccp walks instructions with a u8 index: programs are assumed to have at most 255 instructions (fits_datapath)",
                        "set_cwnd/set_rate_abs take u32: settings are compared modulo 2^32"],
    },
    "C03": {
        "traced_too": True,
        "coq": "Properties/C03.v",
        "level_text": "PROVED. C03_emitted_image_well_formed: for every source text and every list of compile-time overrides, if the compiler emits an image with fewer than 2^32 instructions "
                      "(the event table stores 32-bit indices, as the real code's u32 casts do), the independent byte-level decoder image_wf accepts it: 16-byte records, DEF preamble of report/control "
                      "registers initialised from immediates and no DEF elsewhere, events tiling the remaining instructions contiguously in source order, non-empty condition blocks whose last "
                      "instruction writes implicit register 0, defined opcodes, writable result class, register indices inside the files, temporaries read only after being written in the same block. "
                      "The proof goes through the character-level parser (no parsed name begins with __), the scope invariants of the declarations and overrides, and compile_expr/compile_flag/compile_body. "
                      "The earlier component theorems (C03_image_length, C03_preamble_then_tiling, C03_condition_block_writes_flag, C03_registers_within_files, C03_opcodes_defined) remain. "
                      "image_wf is also evaluated on every image portus produces in the streams, and every image of the dp stream is loaded by the real libccp. C03_one_initialisation_per_literal_declaration (Lang/DefCount.v): for every source text compiled without overrides, the instruction list holds exactly as many DEF instructions as the (def ...) form has declarations with a numeric or boolean literal, whatever the declared names are.",
        "level_note": LANG_NOTE,
        "streams": ["limits", "compile"],
        "rule": "programs at and one beyond each register limit (15/16/17 report and control variables, 5/6/7 locals, 1..11 operator nodes in three shapes in statement and condition position), "
                "three declaration styles, plus generated programs; image_wf evaluated on every accepted image; non-trivial = accepted image (predicate applied); distinct by source",
        "nontrivial": lambda r: r["impl"].startswith("OK"),
        "assumptions": ["the number of events is taken from Bin.events.len(), as the install message's count field is"],
    },
    "C20": {
        "traced_too": True,
        "coq": "Properties/C20.v",
        "level_text": "PROVED. The documented grammar is the relation lay_prog (Lang/Layout.v) between an abstract program and a text: any runs of "
                      "space/tab/CR/LF between tokens (empty wherever two tokens cannot fuse), either spelling of each operator, an optional newline-terminated comment before each event and any "
                      "number among the statements of each event. C20_grammar_accepted (Lang/Accept.v): every layout of every abstract program that is well typed and within the register limits "
                      "(record accepts: declared names distinct and not built in, literal initial values that fit the immediate, at most 16 report and 16 control variables, at most 6 locals, "
                      "conditions and statements typed by the documented discipline with at most 8 operator results each) compiles AND serializes (compile_and_serialize = Ok). "
                      "C20_grammar_parses: every layout is parsed (with the fuel new_with_scope uses) to exactly its program. "
                      "C20_layouts_compile_alike: any two layouts of one program give the same compile result, image and scope (Ok or the same error); C20_compile_is_a_function_of_the_program. "
                      "Non-vacuity: a compact and a spread-out text with comments and both spellings are proved to be layouts of one program, and that program satisfies accepts "
                      "(Lang/LayoutExample.v, AcceptExample.v). Compile-twice determinism of the real compiler and the tie of parser/lowering/encoder to the code are covered by the layout stream: "
                      "8 (thorough 40) random layouts per generated program must give a byte-identical image and identical name->register map; the unchanged source is compiled twice as well.",
        "level_note": LANG_NOTE,
        "streams": ["c20"],
        "rule": "500 generated well-typed programs (thorough 6000) x (1 recompilation + 8/40 layout variants): whitespace runs of length 0..6 over {space, tab, CR, LF} between all tokens "
                "(non-empty only where two tokens would fuse), comments before events and among statements, symbolic/word operator spellings swapped at random; "
                "non-trivial = variant of an accepted program; distinct by variant text",
        "nontrivial": lambda r: r["impl"].startswith("OK"),
        "assumptions": ["names do not begin with true/false (the atom parser takes those as a literal followed by junk): such programs are rejected in every layout"],
    },
}

# ---- what the streams gained in the sixth round of seeded changes (appended to each rule text)
_R6 = {
    "C01": "the model side of every case is the whole pipeline (the install message rebuilt from the source by the compiler model, run on the libccp model) against portus' message on the real libccp; fixed cases with binds as operands and binds whose target is itself a bind",
    "C02": "loopadv: the last message of a datagram loses its tail 1 time in 12 (CUT symbols)",
    "C05": "a table program that compiles but whose install message cannot be encoded (a runtime offered it refuses to start; scripts select it)",
    "C06": "boolean control variables updated to 0..3 and to arbitrary values",
    "C08": "receive buffers and datagrams of 66 000, 70 000 and 131 200 bytes full of whole messages (sizes that do not fit 16 bits)",
    "C10": "chains and rings of 1..5 undeclared locals bound to one another and then given a value (type resolution must end); multi-byte characters at every offset around likely cut points of the unparsed remainder",
    "C11": "field names qualified (Control.x, Report.x, Flow.x), with a trailing dot, in upper case",
    "C12": "reports whose uid is the scope's plus 1..3 times 65536",
    "C13": "a declared variable never carries a name as its type (declarations initialised with another variable's name, then bound)",
    "C15": "requested names that are not registered but agree with a registered one under nine common 32-bit digests, and anagrams of registered names",
    "C16": "unixapi chan-run: the runtime on chan::Socket<Nonblocking> over a backlog queued before it starts, with and without datagrams it must ignore (undecodable, unknown type with stray bytes, unknown type, measurement for no flow)",
    "C18": "unixapi: stop while a peer that is not bound to a path keeps sending (blocking and non-blocking socket)",
    "C19": "c19: a backlog queued on the polling channel transport comes out one datagram per receive; unixapi: sender bound to a relative path, to a path that is not UTF-8, to an absolute path: reported verbatim",
    "C20": "comment texts that are empty, blank, look like code, or contain a lone carriage return",
}
_R7 = {
    "C03": "declarations named like datapath registers or like literals; the number of DEF records is compared with the declarations that have a literal initial value (read by the model's parser)",
    "C06": "the literal stream (c14) also runs under C06: a constant the immediate field cannot say must make the install message fail",
    "C07": "names containing U+FFFD, a byte-order mark, DEL, U+10FFFF, a zero-width space",
    "C08": "the buffer is placed 0..3 bytes off a word boundary (chosen by the script); stop requests inside scripts, after which the flag is set again once and reading goes on (nothing may have been taken off the transport meanwhile)",
    "C09": "unixapi (sender addresses verbatim) also runs under C09",
    "C11": "apiorder also runs under C11: a command through a handle that outlived the run must be an error",
    "C13": "locals first bound inside a when-condition; every name the source binds must be in the returned scope",
    "C14": "override lists in which entries the compiler does not apply (reserved, undeclared, register, local names) precede the override",
    "C15": "the 63-byte registered name contains a two-byte character",
    "C17": "every way of copying a scope (clone, clone_from onto a scope of another compilation, to_owned, containers) keeps the uid",
    "C18": "apiorder: the request is still readable from the handle after the run; two runtimes given one handle both end; a handle kept beyond the run",
    "C19": "c19: Backend over the channel transport with its buffer at offsets 0..3 and messages of exactly the buffer's size",
    "C20": "comment texts with 2-, 3- and 4-byte characters followed by code-like text",
}
_TRACED = ("every stream is run a second time under a tracing subscriber that enables every level and call site "
           "(HARNESS_TRACE=1, the `traced` profile): the library's log statements are evaluated and the results must not change")
for _pid, _cfg in PROPS.items():
    _add = []
    if _pid in _R6:
        _add.append(_R6[_pid])
    if _pid in _R7:
        _add.append(_R7[_pid])
    if _cfg.get("traced_too"):
        _add.append(_TRACED)
    if _add:
        _cfg["rule"] = _cfg.get("rule", "") + "; also: " + "; ".join(_add)
