"""Registry: per property, the Coq statement file, the harness streams, and evidence wording."""

TRUSTED_BASE = [
    "Coq 8.16.1 kernel (coqc), including vm_compute conversion; no native_compute",
    "axioms: none (every Print Assumptions must answer 'Closed under the global context')",
    "extraction to OCaml 4.13.1 with ExtrOcamlBasic only (Extract Inductive bool/option/unit/list/prod/sumbool/sumor, "
    "Extract Inlined Constant andb/orb as shipped by ExtrOcamlBasic); no Extract Constant of our own",
    "hand-written glue: ocaml/*.ml (hex<->N, line protocol), harness/src/*.rs (generators, canonical printing), lib/*.py",
    "the model is hand-written; it is tied to /repo by the correspondence run of this check (same inputs through "
    "the built crate and the extracted model, results compared; the property's executable predicate is also "
    "evaluated on the implementation's results)",
]


def typed_or_err(r):
    i = r["impl"]
    return i.startswith("ERR") or " CR " in i or " MS " in i or " RDY " in i


NOT_CLAIMED = {}

PROPS = {
    "C04": {
        "coq": "Properties/C04.v",
        "level_text": "Theorem C04_decode_total_sound proves, for every byte string, that the decoder model never panics, "
                      "makes progress within the buffer, and produces a typed message only for the right 16-bit type code "
                      "and a covering declared length with every field equal to the little-endian value at its offset. "
                      "The model is tied to the code by running Msg::from_buf and the extracted model on the same ~34k "
                      "(quick) generated buffers and by evaluating the theorem's own predicate on the implementation's results.",
        "level_note": "Coq kernel; no axioms; hand-written model of src/serialize/*.rs validated differentially (grid + mutation + random); "
                      "the unsafe u8->u32 transmute is observed, not proved.",
        "streams": ["c04"],
        "rule": "grid over (16-bit type code, declared length, actual length) with five structured payload kinds, "
                "boundary declared lengths against larger buffers, mutated encodings of valid messages, raw random "
                "strings; a case is non-trivial when the decoder returned a typed message or an error (not the "
                "catch-all unknown message); distinct by input bytes",
        "nontrivial": typed_or_err,
        "assumptions": [
            "the unsafe &[u8]->&[u32] transmute reads little-endian words (observed by the correspondence run on this machine, not proved)",
        ],
    },
    "C07": {
        "coq": "Properties/C07.v",
        "level_text": "Theorems C07_roundtrip, C07_roundtrip_framed and C07_concat prove for every in-range create/measurement/ready "
                      "message that encoding succeeds, decoding consumes exactly the encoded length and returns the same message, "
                      "also when followed by arbitrary bytes, and that concatenations decode back to the same sequence. "
                      "Tied to the code by round-tripping all name lengths 0..64 and field counts 0..255 through portus and the model.",
        "level_note": "Coq kernel; no axioms; hand-written model validated differentially; libccp-emitted messages are covered by the cref stream once built.",
        "streams": ["c07"],
        "rule": "every name length 0..64, every field count 0..255, boundary/random u32 and u64 values, out-of-range "
                "messages (count mismatch, NUL inside the name), concatenations of 1..8 messages; non-trivial = "
                "in-range message that encoded (the round-trip predicate applied); distinct by message",
        "nontrivial": lambda r: r["verdict"] == "ok",
        "assumptions": [
            "messages emitted by the real libccp are compared in the C06/C07 libccp stream when cref is built",
        ],
    },
    "C08": {
        "coq": "Properties/C08.v",
        "level_text": "Theorem C08_stale_free proves that iterating Backend::next's model from a fresh cursor over a receive buffer "
                      "of any size and any (stale) contents yields exactly a function of the scripted datagrams alone, for every "
                      "script of datagrams, receive errors and stop requests; C08_wellformed gives exact in-order delivery with "
                      "sender attribution for well-formed datagrams, C08_progress that every call advances. Tied to the code by "
                      "running Backend::next over a scripted Ipc on the same scripts (truncation sweep + ~5k random scripts quick).",
        "level_note": "Coq kernel; no axioms; model of Backend::next/get_next_read (src/ipc/mod.rs) with the buffer's stale bytes "
                      "modelled explicitly; validated differentially over buffer sizes 64..1024.",
        "streams": ["c08"],
        "rule": "exhaustive truncation sweep of the middle datagram of a fixed 3-datagram family (two buffer sizes); random "
                "scripts of 1..6 datagrams from 3 senders with 1..4 messages each, later datagrams shorter than earlier ones, "
                "truncated tails, bit flips, junk suffixes, receive errors; non-trivial = at least two messages yielded; "
                "distinct by script",
        "nontrivial": lambda r: r["impl"].count(" ; ") >= 1,
        "exhaustive": False,
        "assumptions": [
            "Ipc::recv returns at most the buffer length (true of the scripted transport and of the bundled ones after the chan fix)",
        ],
    },
}
