(* The dispatch loop: parse a scripted-runtime case, run the model, print the canonical log. *)
open Model
open Util

let names_tbl = [| "dflt"; "reno"; "renoX"; "c\xc3\xbcbic012345678901234567890123456789012345678901234567890123456" |]
let bytes_of_string (s : string) : n list =
  List.init (String.length s) (fun i -> byte_table.(Char.code s.[i]))
let string_of_bytes (b : n list) : string =
  String.concat "" (List.map (fun x -> String.make 1 (Char.chr (int_of_n x))) b)

(* ~xx in an algorithm name of a case line stands for the byte xx *)
let unescape_name (s : string) : string =
  let b = Buffer.create (String.length s) and i = ref 0 and n = String.length s in
  while !i < n do
    if s.[!i] = '~' && !i + 2 < n + 0 && !i + 2 <= n - 1 then begin
      (match int_of_string_opt ("0x" ^ String.sub s (!i + 1) 2) with
       | Some v -> Buffer.add_char b (Char.chr v); i := !i + 3
       | None -> Buffer.add_char b s.[!i]; incr i)
    end else begin Buffer.add_char b s.[!i]; incr i end
  done;
  Buffer.contents b

let split_on_string (sep : string) (s : string) : string list =
  let n = String.length s and k = String.length sep in
  let parts = ref [] and cur = Buffer.create 64 and i = ref 0 in
  while !i < n do
    if !i + k <= n && String.sub s !i k = sep then begin
      parts := Buffer.contents cur :: !parts; Buffer.clear cur; i := !i + k end
    else begin Buffer.add_char cur s.[!i]; incr i end
  done;
  parts := Buffer.contents cur :: !parts;
  List.rev !parts

let split1 c s = match String.index_opt s c with
  | None -> failwith ("no separator in " ^ s)
  | Some i -> String.sub s 0 i, String.sub s (i + 1) (String.length s - i - 1)

let parse_reg (s : string) : reg =
  let s = match String.index_opt s ':' with Some i -> String.sub s 0 i | None -> s in
  let vol = String.length s > 1 && s.[String.length s - 1] = 'v' in
  let body = if vol then String.sub s 1 (String.length s - 2) else String.sub s 1 (String.length s - 1) in
  let i = n_of_int (int_of_string body) in
  match s.[0] with
  | 'C' -> Control (i, TNone, vol)
  | 'R' -> Report (i, TNone, vol)
  | 'I' -> Implicit (i, TNone)
  | 'L' -> Local (i, TNone)
  | 'P' -> Primitive (i, TNone)
  | 'T' -> Tmp (i, TNone)
  | 'N' -> ImmNum i
  | 'B' -> ImmBool (body = "1")
  | _ -> RNone

type desc = { d_id : int; d_name : string; d_ok : bool; d_src : string; d_scope : (n list * reg) list }

let parse_desc (s : string) : desc =
  match String.split_on_char ':' s with
  | id :: name :: ok :: src :: rest ->
    let ents = String.concat ":" rest in
    let scope = if ents = "" then [] else
        List.map (fun e -> let (k, v) = split1 '=' e in (bytes_of_string k, parse_reg v)) (String.split_on_char ',' ents) in
    { d_id = int_of_string id; d_name = name; d_ok = (ok = "1"); d_src = src; d_scope = scope }
  | _ -> failwith ("bad descriptor " ^ s)

(* The scope portus gives a program is an input of the loop model; here it is compared with the
   scope the compiler model gives the same text: same acceptance, and for every probed name the
   same register class, slot and volatility (the class decides what get_field/update_field do). *)
let scope_cache : (string, string list) Hashtbl.t = Hashtbl.create 16
let reg_key (r : reg) : string = match r with
  | Control (i, _, v) -> Printf.sprintf "C%d%s" (int_of_n i) (if v then "v" else "")
  | Report (i, _, v) -> Printf.sprintf "R%d%s" (int_of_n i) (if v then "v" else "")
  | Implicit (i, _) -> Printf.sprintf "I%d" (int_of_n i)
  | Local (i, _) -> Printf.sprintf "L%d" (int_of_n i)
  | Primitive (i, _) -> Printf.sprintf "P%d" (int_of_n i)
  | Tmp (i, _) -> Printf.sprintf "T%d" (int_of_n i)
  | ImmNum _ -> "N" | ImmBool _ -> "B" | RNone -> "X"
let scope_mismatches (d : desc) : string list =
  let key = string_of_int d.d_id ^ ":" ^ d.d_src ^ ":" ^ String.concat "," (List.map (fun (k, r) -> string_of_bytes k ^ "=" ^ reg_key r) d.d_scope) in
  match Hashtbl.find_opt scope_cache key with
  | Some l -> l
  | None ->
    let l =
      if d.d_src = "" || d.d_src = "-" then [] else
        match compile_and_serialize (bytes_of_hex d.d_src) [] with
        | Inl (Ok (_, sc)) ->
          if not d.d_ok then ["accepted-by-the-model-only:" ^ d.d_name] else
            List.filter_map (fun (k, r) ->
                match sc_get sc.sc_named k with
                | Some r' when reg_key r' = reg_key r -> None
                | Some r' -> Some (Printf.sprintf "%s:%s-vs-model-%s" (string_of_bytes k) (reg_key r) (reg_key r'))
                | None -> Some (Printf.sprintf "%s:%s-vs-model-absent" (string_of_bytes k) (reg_key r))) d.d_scope
        | Inl _ -> if d.d_ok then ["rejected-by-the-model-only:" ^ d.d_name] else []
        | Inr _ -> [] in
    Hashtbl.replace scope_cache key l; l

let parse_fields (s : string) : (n list * n) list =
  if s = "" || s = "-" then [] else
    List.map (fun kv -> let (k, v) = split1 '=' kv in (bytes_of_string k, n_of_hex v)) (String.split_on_char '&' s)

let parse_cmd (s : string) : cmd =
  let (k, rest) = split1 ':' s in
  let (p, x) = split1 ':' rest in
  match k with
  | "SP" -> SetProgram (bytes_of_string p, parse_fields x)
  | "UF" -> UpdateField (bytes_of_string p, parse_fields x)
  | "GR" -> GetField (RT (bytes_of_string p), bytes_of_string x)
  | "GO" -> GetField (OWN (bytes_of_string p), bytes_of_string x)
  | _ -> failwith ("bad cmd " ^ s)
let parse_cmds (s : string) : cmd list =
  if s = "-" || s = "" then [] else List.map parse_cmd (String.split_on_char '+' s)

let ok_bytes = function Ok b -> b | _ -> failwith "model could not encode a scripted message"

let replace_nth l i v = List.mapi (fun j x -> if j = i then v else x) l

let rec encode_sym (in_set : int -> bool) (s : string) : n list =
  if String.length s > 4 && String.sub s 0 4 = "CUT:" then begin
    (* the first k bytes (at most all but one) of another message *)
    let (ks, inner) = split1 ':' (String.sub s 4 (String.length s - 4)) in
    let b = encode_sym in_set inner in
    let k = Stdlib.min (int_of_string ks) (Stdlib.max 0 (Stdlib.List.length b - 1)) in
    Stdlib.List.filteri (fun i _ -> i < k) b end else
  encode_sym_plain in_set s
and encode_sym_plain (in_set : int -> bool) (s : string) : n list =
  match String.split_on_char ':' s with
  | ["RDY"; id] -> ok_bytes (serialize_msg (MRdy (n_of_hex id)))
  | ["CR"; sid; alg; cwnd; mss] ->
    ok_bytes (serialize_msg (MCr { c_sid = n_of_hex sid; c_init_cwnd = n_of_hex cwnd; c_mss = n_of_hex mss;
                                   c_src_ip = n_of_int 1; c_src_port = n_of_int 2; c_dst_ip = n_of_int 3; c_dst_port = n_of_int 4;
                                   c_alg = if alg = "-" then None else Some (bytes_of_string (unescape_name alg)) }))
  | ["MS"; sid; u; nf; fs] ->
    let uid = if u.[0] = 'p' then begin
        let k = int_of_string (String.sub u 1 (String.length u - 1)) in
        if in_set k then n_of_int (k + 1) else n_of_int (0xEE000000 + k) end
      else if u.[0] = 'q' then begin
        (* the uid of program k plus j * 65536 (modulo 2^32) *)
        let (ks, js) = split1 '.' (String.sub u 1 (String.length u - 1)) in
        let k = int_of_string ks and j = int_of_string js in
        n_of_int (((if in_set k then k + 1 else 0xEE000000 + k) + j * 65536) land 0xFFFFFFFF) end
      else n_of_hex (String.sub u 1 (String.length u - 1)) in
    let fields = of_hexlist fs in
    let b = ok_bytes (serialize_msg (MMs { m_sid = n_of_hex sid; m_uid = uid; m_nf = n_of_int (List.length fields); m_fields = fields })) in
    replace_nth b 12 (n_of_hex nf)
  | ["RAW"; h] -> bytes_of_hex h
  | _ -> failwith ("bad message " ^ s)

let gf_str = function
  | None -> "GET NOSCOPE"
  | Some (GfOk v) -> "GET OK " ^ n_to_hex v
  | Some (GfErr Stale) -> "GET STALE"
  | Some (GfErr NotFound) -> "GET NOTFOUND"
  | Some (GfErr RegType) -> "GET REGTYPE"
  | Some (GfErr InvalidReport) -> "GET INVALIDREPORT"

let rec take k l = if k = 0 then [] else match l with [] -> [] | x :: r -> x :: take (k - 1) r

let effect_str (e : effect) : string =
  match e with
  | ENew (hid, inst, _, c) ->
    Printf.sprintf "NEW h%d i%s %s %s %s %s %s %s %s hs%s" (int_of_nat hid) (n_to_hex inst) (n_to_hex c.c_sid)
      (n_to_hex c.c_init_cwnd) (n_to_hex c.c_mss) (n_to_hex c.c_src_ip) (n_to_hex c.c_src_port)
      (n_to_hex c.c_dst_ip) (n_to_hex c.c_dst_port) (n_to_hex c.c_sid)
  | EReport (hid, sid, uid, fs) ->
    Printf.sprintf "REP h%d %s %s %s" (int_of_nat hid) (n_to_hex sid) (n_to_hex uid) (hexlist_of (take 16 fs))
  | EClose hid -> Printf.sprintf "CLOSE h%d" (int_of_nat hid)
  | EDrop hid -> Printf.sprintf "DROP h%d" (int_of_nat hid)
  | EInstall (a, uid) -> Printf.sprintf "INSTALL a%s %s" (n_to_hex a) (n_to_hex uid)
  | ESend (a, b) ->
    let t = match b with x :: _ -> int_of_n x | [] -> -1 in
    Printf.sprintf "%s a%s %s" (if t = 4 then "CHG" else if t = 3 then "UPD" else "SEND") (n_to_hex a) (hex_of_bytes b)
  | ESendFail a -> Printf.sprintf "SENDFAIL a%s" (n_to_hex a)
  | ECmd ok -> if ok then "CMD ok" else "CMD err"
  | ECmdSkip -> "CMD skip"
  | EGet r -> gf_str r
  | ECloseTransport -> "CLOSE-TRANSPORT"

let starts_with p s = String.length s >= String.length p && String.sub s 0 (String.length p) = p
let nth_tok s i = match List.nth_opt (String.split_on_char ' ' s) i with Some t -> t | None -> ""
let last_tok s = let l = String.split_on_char ' ' s in List.nth l (List.length l - 1)

(* same canonicalisation as the harness: sort runs of DROP and of INSTALL (to one address) *)
let canon_log (log : string list) : string list =
  let arr = Array.of_list log in
  let n = Array.length arr in
  let out = ref [] and i = ref 0 in
  while !i < n do
    let kind = if starts_with "DROP " arr.(!i) then "DROP " else if starts_with "INSTALL " arr.(!i) then "INSTALL " else "" in
    if kind = "" then (out := arr.(!i) :: !out; incr i)
    else begin
      let addr = nth_tok arr.(!i) 1 in
      let j = ref !i in
      while !j < n && starts_with kind arr.(!j) && (kind = "DROP " || nth_tok arr.(!j) 1 = addr) do incr j done;
      let run = ref (Array.to_list (Array.sub arr !i (!j - !i))) in
      if kind = "INSTALL " && !j < n && starts_with "SENDFAIL" arr.(!j) then
        run := List.map (fun _ -> "INSTALL " ^ addr ^ " ?") !run;
      let key l = let t = last_tok l in
        let t = if String.length t > 0 && t.[0] = 'h' then String.sub t 1 (String.length t - 1) else t in
        (String.length t, t) in
      let sorted = List.stable_sort (fun a b -> compare (key a) (key b)) !run in
      out := List.rev_append sorted !out;
      i := !j
    end
  done;
  List.rev !out

let cmd_loop (_param : string) (arg : string) (_impl : string) : string * string =
  let secs = split_on_string " | " arg in
  if List.length secs <> 6 then ("UNPARSABLE", "-") else begin
    let sec i = List.nth secs i in
    (* algorithms *)
    let def_inst = ref 0 and regs = ref [] in
    List.iter (fun t -> let (k, v) = split1 '=' t in
                if k = "def" then def_inst := int_of_string v
                else regs := (int_of_string k, (if v = "-" then None else Some (int_of_string v))) :: !regs) (split_ws (sec 0));
    let regs_recent_first = !regs in
    let instprogs = Hashtbl.create 8 in
    List.iter (fun t -> let (i, ps) = split1 ':' t in
                Hashtbl.replace instprogs (int_of_string i)
                  (if ps = "" then [] else List.map int_of_string (String.split_on_char ',' ps))) (split_ws (sec 1));
    let descs = List.map parse_desc (split_ws (sec 5)) in
    let desc k = List.find (fun d -> d.d_id = k) descs in
    let progs_of inst = List.map (fun k -> (bytes_of_string (desc k).d_name, n_of_int k))
        (try Hashtbl.find instprogs inst with Not_found -> []) in
    let collected = collect_programs
        (List.map (fun (_, io) -> match io with None -> None | Some i -> Some (progs_of i)) regs_recent_first)
        (progs_of !def_inst) in
    let set_ids = List.map (fun (_, k) -> int_of_n k) collected in
    let in_set k = List.mem k set_ids in
    let mkprog k = let d = desc k in { p_name = bytes_of_string d.d_name; p_uid = n_of_int (k + 1); p_scope = d.d_scope } in
    let cfg_progs = List.map mkprog (List.sort compare set_ids) in
    let compile_ok = List.for_all (fun k -> (desc k).d_ok) set_ids in
    let own = List.fold_left (fun acc d -> if d.d_ok && not (List.exists (fun p -> string_of_bytes p.p_name = d.d_name) acc)
                               then acc @ [{ p_name = bytes_of_string d.d_name; p_uid = n_of_int (1000 + d.d_id); p_scope = d.d_scope }] else acc) [] descs in
    let cfg = { cfg_default = n_of_int !def_inst;
                cfg_algs = List.map (fun (k, io) -> { a_name = bytes_of_string names_tbl.(k);
                                                      a_inst = (match io with None -> None | Some i -> Some (n_of_int i)) }) regs_recent_first;
                cfg_progs = cfg_progs; cfg_own = own; cfg_compile_ok = compile_ok } in
    (* behaviour *)
    let new_cmds = ref [] and rep_cmds = ref [] in
    List.iter (fun t -> let (k, v) = split1 '=' t in
                if k = "new" then new_cmds := parse_cmds v else rep_cmds := parse_cmds v) (split_ws (sec 2));
    let user _ is_report = if is_report then !rep_cmds else !new_cmds in
    (* options *)
    let buf = ref 1024 and stop0 = ref false and sendfail = ref [] in
    List.iter (fun t -> let (k, v) = split1 '=' t in
                match k with
                | "buf" -> ()   (* run_inner's receive buffer is always 1024 bytes *)
                | "stop0" -> stop0 := (v = "1")
                | "sendfail" -> sendfail := if v = "-" then [] else List.map int_of_string (String.split_on_char ',' v)
                | _ -> ()) (split_ws (sec 3));
    let send_ok k = not (List.mem (int_of_nat k) !sendfail) in
    (* events *)
    let evs = if String.trim (sec 4) = "-" then [] else
        List.filter_map (fun it ->
            let it = String.trim it in
            if it = "" then None
            else if it = "E" then Some RecvErr
            else if it = "S" then Some StopReq
            else begin
              let (a, ms) = split1 ':' (String.sub it 1 (String.length it - 1)) in
              let bytes = if ms = "" then [] else List.concat (List.map (encode_sym in_set) (String.split_on_char '+' ms)) in
              Some (Dgram (n_of_hex a, bytes))
            end) (split_on_string " ; " (sec 4)) in
    let (effs, res) = run_model cfg user send_ok (nat_of_int !buf) !stop0 evs in
    let log = canon_log (List.map effect_str effs) in
    let r = match res with ROk -> "OK" | RErr -> "ERR" | RPanic -> "PANIC" | RFuel -> "OUT-OF-FUEL" in
    let s = Printf.sprintf "%s => %s strong=1 recv_after_stop=0" (if log = [] then "-" else String.concat " ; " log) r in
    (* independent trace predicates evaluated on the implementation's own output *)
    let verdict =
      if _impl = "" then "-" else begin
        let fails = ref [] in
        let (body, tail) = match split_on_string " => " _impl with
          | [b; t] -> (b, t) | _ -> (_impl, "") in
        let items = if body = "-" then [] else split_on_string " ; " body in
        (* C16: never a panic *)
        if starts_with "PANIC" tail || _impl = "PANIC" then fails := "C16:runtime-panicked" :: !fails;
        (* C18: the stop-handle reference is given back, no receive after the stop, the transport
           close is the last thing that happens, a stop request yields success *)
        if not (starts_with "PANIC" tail) then begin
          if nth_tok tail 1 <> "strong=1" then fails := "C18:stop-handle-reference-count" :: !fails;
          if nth_tok tail 2 <> "recv_after_stop=0" then fails := "C18:receive-after-stop" :: !fails;
          (match List.rev items with
           | last :: _ when last = "CLOSE-TRANSPORT" -> ()
           | _ -> fails := "C18:transport-close-not-last" :: !fails);
          if List.length (List.filter (fun x -> x = "CLOSE-TRANSPORT") items) <> 1 then
            fails := "C18:transport-closed-not-exactly-once" :: !fails
        end;
        (* C05 (necessary condition): a change-program names a uid already installed at its destination *)
        let installed = Hashtbl.create 16 in
        (* C09: commands go to an (address, flow id) some create message came from *)
        let origins = Hashtbl.create 16 in
        List.iter (fun e -> match e with
            | Dgram (a, bytes) ->
              (match decode_all (length bytes) (firstn (nat_of_int 1024) bytes) with
               | Ok ms -> List.iter (fun m -> match m with MCr c -> Hashtbl.replace origins (n_to_hex a, n_to_hex c.c_sid) () | _ -> ()) ms
               | _ -> (* decode what can be decoded *)
                 let rec go bs fuel = if fuel = 0 || bs = [] then () else
                     match from_buf bs with
                     | Ok ((MCr c, k)) -> Hashtbl.replace origins (n_to_hex a, n_to_hex c.c_sid) (); go (skipn k bs) (fuel - 1)
                     | Ok ((_, k)) -> go (skipn k bs) (fuel - 1)
                     | _ -> () in
                 go (firstn (nat_of_int 1024) bytes) 64)
            | _ -> ()) evs;
        List.iter (fun it ->
            let t = String.split_on_char ' ' it in
            match t with
            | ["INSTALL"; a; u] -> Hashtbl.replace installed (a, u) ()
            | ["CHG"; a; h] when String.length h >= 24 ->
              let le32 off = n_to_hex (n_of_hex (String.concat "" (List.rev_map (fun i -> String.sub h (off + 2 * i) 2) [0; 1; 2; 3]))) in
              let sid = le32 8 and uid = le32 16 in
              if not (Hashtbl.mem installed (a, uid)) then begin
                fails := "C05:change-program-before-install" :: !fails;
                fails := "C17:change-program-names-a-uid-never-installed-there" :: !fails end;
              let a' = String.sub a 1 (String.length a - 1) in
              if not (Hashtbl.mem origins (a', sid)) then fails := "C09:command-to-foreign-address-or-flow" :: !fails
            | ["UPD"; a; h] when String.length h >= 16 ->
              let le32 off = n_to_hex (n_of_hex (String.concat "" (List.rev_map (fun i -> String.sub h (off + 2 * i) 2) [0; 1; 2; 3]))) in
              let a' = String.sub a 1 (String.length a - 1) in
              if not (Hashtbl.mem origins (a', le32 8)) then fails := "C09:command-to-foreign-address-or-flow" :: !fails
            | "CMD" :: "ok-BUT-WRONG-SCOPE" :: _ -> fails := "C11:returned-scope-is-not-the-selected-program" :: !fails
            | _ -> ()) items;
        (* Specification projections.  The model is proved to refine the flat (address, flow id) ->
           handler specification, so its log, projected onto what a property constrains, is what the
           property demands for this history; the implementation's projected log must equal it.  A
           property is blamed only when everything it builds on (the dispatch of callbacks, then the
           installation/selection layer) agrees, so that one defect is reported under the property
           it violates and not under all of them. *)
        let model_items = log in
        let toks it = String.split_on_char ' ' it in
        let le32h h off = if String.length h >= off + 8 then n_to_hex (n_of_hex (String.concat "" (List.rev_map (fun i -> String.sub h (off + 2 * i) 2) [0; 1; 2; 3]))) else "?" in
        let proj f l = List.filter_map f l in
        let p02 it = match toks it with
          | "NEW" :: h :: _inst :: rest -> Some (String.concat " " ("NEW" :: h :: rest))
          | "REP" :: _ | "CLOSE" :: _ -> Some it
          | _ -> None in
        let p15 it = match toks it with
          | "NEW" :: h :: inst :: _ -> Some (String.concat " " ["NEW"; h; inst])
          | "INSTALL" :: _ -> Some it
          | _ -> None in
        let p05 it = match toks it with
          | "INSTALL" :: _ -> Some it
          | ["CHG"; a; h] -> Some (String.concat " " ["CHG"; a; le32h h 16])
          | "CHG" :: a :: "UNKNOWN-UID" :: _ -> Some (String.concat " " ["CHG"; a; "UNKNOWN-UID"])
          | "NEW" :: h :: _ -> Some ("NEW " ^ h)
          | _ -> None in
        let p09 it = match toks it with
          | ["CHG"; a; h] | ["UPD"; a; h] -> Some (String.concat " " ["CMDTO"; a; le32h h 8])
          | _ -> None in
        let p11 it = match toks it with
          | "CMD" :: _ | "CHG" :: _ | "UPD" :: _ -> Some it
          | _ -> None in
        let p12 it = match toks it with
          | "GET" :: _ -> Some it
          | _ -> None in
        let differs f = proj f items <> proj f model_items in
        (* C18, last clause: whether the run call returns success or an error is decided by how the
           history ends (stop request or end of the script: success; a receive error or an
           undecodable message with no stop requested: error).  Same log, other result: C18. *)
        if not (starts_with "PANIC" tail) && _impl <> "PANIC" && items = model_items && nth_tok tail 0 <> r then
          fails := (if r = "ERR" then "C18:success-without-a-stop-request" else "C18:stop-request-did-not-yield-success") :: !fails;
        if not (starts_with "PANIC" tail) && _impl <> "PANIC" then begin
          let d02 = differs p02 in
          (* C15 is about WHICH instance handles a flow and WHICH programs a datapath is sent; when and how
             often they are sent is C05's *)
          let only_new it = match toks it with "NEW" :: _ -> p15 it | _ -> None in
          let only_inst it = match toks it with "INSTALL" :: _ -> Some it | _ -> None in
          let d15 = differs only_new || List.sort_uniq compare (proj only_inst items) <> List.sort_uniq compare (proj only_inst model_items) in
          let d05 = differs p05 in
          (* a command that went somewhere else, as opposed to one that should (not) have been sent *)
          let d09 = differs p09 && List.length (proj p09 items) = List.length (proj p09 model_items) in
          let d11 = differs p11 in
          let d12 = differs p12 in
          (* what get_field answers is C12's own clause, whatever else differs *)
          if d12 && d02 then fails := "C12:field-lookup-result-differs" :: !fails;
          if d02 then fails := "C02:callbacks-differ-from-the-flat-map-specification" :: !fails
          else begin
            if d15 then fails := "C15:handling-algorithm-or-installed-set-differs" :: !fails;
            if d05 && not d15 then fails := "C05:installations-or-selected-uids-differ" :: !fails;
            (* C17, last clause: the uid a scope carries is the uid placed in the install message of that program *)
            if d05 && not d15 then fails := "C17:selected-uid-is-not-the-installed-one" :: !fails;
            if d09 then fails := "C09:command-destination-or-flow-id-differs" :: !fails;
            if d11 && not d05 && not d09 then fails := "C11:command-result-or-message-differs" :: !fails;
            (* the same commands succeeded and failed, but a message's bytes are not what its updates say *)
            (let pcmd it = match toks it with "CMD" :: _ -> Some it | _ -> None in
             if d11 && not d05 && not d09 && not (differs pcmd) then fails := "C06:control-message-bytes-differ-from-the-requested-updates" :: !fails);
            if d12 && not d11 && not d05 then fails := "C12:field-lookup-result-differs" :: !fails
          end
        end;
        (* the scopes the lookups and updates of this case were resolved in *)
        if List.exists (fun d -> scope_mismatches d <> []) descs then begin
          fails := "C12:scope-gives-a-name-another-register-class-or-slot-than-the-compiler-model" :: !fails;
          fails := "C13:scope-gives-a-name-another-register-class-or-slot-than-the-compiler-model" :: !fails;
          fails := "C11:scope-gives-a-name-another-register-class-or-slot-than-the-compiler-model" :: !fails
        end;
        if !fails = [] then "ok" else "FAIL:" ^ String.concat "," (List.sort_uniq compare !fails)
      end in
    (s, verdict)
  end

(* C16: the same history with and without datagrams the runtime must ignore.  The model is run on
   both (it ignores them: SAME); the verdict is about the implementation's two runs. *)
let cmd_ignore (param : string) (arg : string) (impl : string) : string * string =
  match split_on_string " ## " arg with
  | [a; b] ->
    let (ma, _) = cmd_loop param a "" and (mb, _) = cmd_loop param b "" in
    let m = if ma = mb then "SAME" else "DIFF " ^ ma ^ " ## " ^ mb in
    let v = if impl = "" then "-"
      else if impl = "SAME" then "ok"
      else "FAIL:C16:ignored-message-changed-later-dispatch" in
    (m, v)
  | _ -> ("UNPARSABLE", "-")

(* C09 on the implementation alone: what one datapath sees of a history is what it sees of the same
   history without the other datapaths' datagrams (the model's isolation is the theorem C09_frame) *)
let cmd_isolate (_param : string) (_arg : string) (impl : string) : string * string =
  ("ISOLATED", if impl = "" then "-" else if impl = "ISOLATED" then "ok"
    else if impl = "PANIC" then "FAIL:C16:runtime-panicked"
    else "FAIL:C09:another-datapaths-messages-changed-what-this-datapath-sees")
