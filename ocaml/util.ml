(* Conversions between the extracted Coq datatypes (nat, positive, N) and strings.
   Numbers travel as lowercase hex so that u64 values never pass through OCaml's 63-bit int. *)
open Model
(* the extracted model defines its own [string] (Coq strings); the glue means OCaml's *)
type string = String.t

let rec nat_of_int (i : int) : nat =
  let rec go acc i = if i <= 0 then acc else go (S acc) (i - 1) in go O i
let int_of_nat (n : nat) : int =
  let rec go acc = function O -> acc | S m -> go (acc + 1) m in go 0 n

(* positive <-> list of bits, least significant first *)
let rec bits_of_pos = function
  | XH -> [true]
  | XO p -> false :: bits_of_pos p
  | XI p -> true :: bits_of_pos p
let bits_of_n = function N0 -> [] | Npos p -> bits_of_pos p

let n_of_bits (bits : bool list) : n =
  (* bits: least significant first; trailing falses allowed *)
  let rec strip = function
    | [] -> []
    | false :: r -> strip r
    | l -> l in
  let msb_first = strip (List.rev bits) in
  match msb_first with
  | [] -> N0
  | _ :: rest ->
    (* msb is 1 *)
    let p = List.fold_left (fun acc b -> if b then XI acc else XO acc) XH rest in
    Npos p

let hexdig = "0123456789abcdef"
let n_to_hex (x : n) : string =
  let bits = bits_of_n x in
  if bits = [] then "0" else begin
    let buf = Buffer.create 16 in
    let rec groups l = match l with
      | [] -> []
      | a :: b :: c :: d :: r -> [a;b;c;d] :: groups r
      | l -> [l] in
    let gs = groups bits in
    let digs = List.map (fun g ->
        let v, _ = List.fold_left (fun (v, w) b -> ((if b then v + w else v), w * 2)) (0, 1) g in
        hexdig.[v]) gs in
    List.iter (Buffer.add_char buf) (List.rev digs);
    Buffer.contents buf
  end

let hexval c = match c with
  | '0'..'9' -> Char.code c - 48
  | 'a'..'f' -> Char.code c - 87
  | 'A'..'F' -> Char.code c - 55
  | _ -> failwith ("bad hex digit " ^ String.make 1 c)

let n_of_hex (s : string) : n =
  let bits = ref [] in
  (* most significant digit first -> build lsb-first list *)
  String.iter (fun c ->
      let v = hexval c in
      (* prepend 4 bits, so iterate and cons: final list must be lsb first *)
      bits := [v land 1 = 1; v land 2 = 2; v land 4 = 4; v land 8 = 8] @ !bits) s;
  n_of_bits !bits

let n_of_int (i : int) : n = n_of_hex (Printf.sprintf "%x" i)
let int_of_n (x : n) : int = int_of_string ("0x" ^ n_to_hex x)

let byte_table : n array = Array.init 256 n_of_int

let bytes_of_hex (s : string) : n list =
  if s = "-" then [] else begin
    let len = String.length s / 2 in
    let rec go i acc = if i < 0 then acc
      else go (i - 1) (byte_table.(hexval s.[2*i] * 16 + hexval s.[2*i+1]) :: acc) in
    go (len - 1) []
  end

let hex_of_bytes (l : n list) : string =
  if l = [] then "-" else begin
    let buf = Buffer.create 64 in
    List.iter (fun b -> let v = int_of_n b in
                Buffer.add_char buf hexdig.[(v lsr 4) land 15];
                Buffer.add_char buf hexdig.[v land 15]) l;
    Buffer.contents buf
  end

let hexlist_of (l : n list) : string =
  if l = [] then "-" else String.concat "," (List.map n_to_hex l)
let of_hexlist (s : string) : n list =
  if s = "-" then [] else List.map n_of_hex (String.split_on_char ',' s)

let split_ws s = List.filter (fun x -> x <> "") (String.split_on_char ' ' s)
