(* dp <srchex>|<script> : run the libccp model on a reference-datapath script and print what
   the C driver (cref/driver.c) prints for the same script *)
open Model
open Util

let z_str (z : z) : string =
  match z with
  | Z0 -> "0"
  | Zpos p -> string_of_int (int_of_n (Npos p))
  | Zneg p -> "-" ^ string_of_int (int_of_n (Npos p))

let mask32 = n_of_hex "ffffffff"
let w32 = n_of_hex "100000000"
let w64 = n_of_hex "10000000000000000"
let trunc32 x = Model.N.modulo x w32
let trunc64 x = Model.N.modulo x w64

let set_prims (c : conn) (f : n list) : conn =
  let g i = match List.nth_opt f i with Some v -> v | None -> N0 in
  let p = { p_bytes_acked = trunc32 (g 0); p_packets_acked = trunc32 (g 1); p_bytes_misordered = trunc32 (g 2);
            p_packets_misordered = trunc32 (g 3); p_ecn_bytes = trunc32 (g 4); p_ecn_packets = trunc32 (g 5);
            p_lost_pkts_sample = trunc32 (g 6); p_was_timeout = (if g 7 = N0 then N0 else n_of_int 1);
            p_rtt_sample_us = trunc64 (g 8); p_rate_outgoing = trunc64 (g 9); p_rate_incoming = trunc64 (g 10);
            p_bytes_in_flight = trunc32 (g 11); p_packets_in_flight = trunc32 (g 12); p_snd_cwnd = trunc32 (g 13);
            p_snd_rate = trunc64 (g 14); p_bytes_pending = trunc32 (g 15) } in
  { c with c_prims = p }

let ev_str = function
  | DSetCwnd v -> "W" ^ n_to_hex v
  | DSetRate v -> "R" ^ n_to_hex v
  | DSend b -> "S" ^ hex_of_bytes b

let rec take k l = if k = 0 then [] else match l with [] -> [] | x :: r -> x :: take (k - 1) r

let run_script (script : string) : string =
  let out = ref [] in
  let emit s = out := s :: !out in
  let d = ref dp_init in
  emit ("S" ^ hex_of_bytes (match serialize_msg (MRdy (n_of_int 7)) with Ok b -> b | _ -> []));
  emit "init0";
  List.iter (fun op ->
      if op <> "" then
        let rest = String.sub op 1 (String.length op - 1) in
        match op.[0] with
        | 'M' -> let (rc, d') = read_msg !d (bytes_of_hex rest) in d := d'; emit ("M" ^ z_str rc)
        | 'N' ->
          (match String.split_on_char ',' rest with
           | [cw; mss; alg] ->
             let (d', evs) = conn_start !d (n_of_hex cw) (n_of_hex mss) (if alg = "-" then [] else bytes_of_hex alg) in
             d := d'; List.iter (fun e -> emit (ev_str e)) evs; emit "N1"
           | _ -> emit "N?")
        | 'P' ->
          (match !d.d_conn with
           | None -> emit "P-noconn"
           | Some c -> d := { !d with d_conn = Some (set_prims c (List.map n_of_hex (String.split_on_char ',' rest))) })
        | 'T' -> d := { !d with d_clock = n_of_hex rest }
        | 'I' ->
          (match !d.d_conn with
           | None -> emit "I-noconn"
           | Some _ -> let ((rc, d'), evs) = invoke !d in d := d'; List.iter (fun e -> emit (ev_str e)) evs; emit ("I" ^ z_str rc))
        | 'G' ->
          (match !d.d_conn with
           | None -> emit "G-noconn"
           | Some c ->
             let rg = c.c_regs in
             let f l k = String.concat "," (List.map n_to_hex (take k l)) in
             emit (Printf.sprintf "G%s|%s|%s|%s" (f rg.r_report 16) (f rg.r_control 16) (f rg.r_local 8) (f rg.r_impl 6)))
        | 'F' ->
          (match !d.d_conn with
           | None -> ()
           | Some c -> emit ("S" ^ hex_of_bytes (measure_bytes c.c_index N0 [] N0)); d := { !d with d_conn = None })
        | c -> emit (Printf.sprintf "?%c" c)) (String.split_on_char ' ' script);
  String.concat " " (List.rev !out)

let c01_verdict_fwd : (string -> string -> string) ref = ref (fun _ _ -> "ok")
let c01_verdict_ref a i = !c01_verdict_fwd a i

let cmd_dp (_p : string) (arg : string) (_impl : string) : string * string =
  match String.index_opt arg '|' with
  | None -> ("UNPARSABLE", "-")
  | Some i ->
    let script = String.sub arg (i + 1) (String.length arg - i - 1) in
    (* the model's side is the whole pipeline: the install message is rebuilt from the source text by the
       model compiler (same flow id, same program uid), so the model datapath runs the MODEL's image while
       the real libccp ran the image portus produced.  For programs inside the typed fragment the verdict
       below judges the result against the source semantics; outside it (a bind whose target is itself an
       expression, say) a divergence still shows as a correspondence failure with this input. *)
    let src = bytes_of_hex (String.sub arg 0 i) in
    let le b off k = let rec go j acc = if j < 0 then acc else
                         go (j - 1) (Model.N.add (Model.N.mul acc (n_of_int 256)) (match Stdlib.List.nth_opt b (off + j) with Some x -> x | None -> N0)) in
      go (k - 1) N0 in
    let replaced = ref false in
    let toks = Stdlib.List.map (fun op ->
        if not !replaced && String.length op > 17 && op.[0] = 'M' && String.sub op 1 4 = "0200" then begin
          replaced := true;
          let b = bytes_of_hex (String.sub op 1 (String.length op - 1)) in
          let sid = le b 4 4 and uid = le b 8 4 in
          match compile src [] with
          | Inl (Ok (bin, _)) ->
            let ne = n_of_int (Stdlib.List.length bin.b_events) and ni = n_of_int (Stdlib.List.length bin.b_instrs) in
            (match serialize_install sid uid ne ni (serialize_bin bin) with
             | Ok m -> "M" ^ hex_of_bytes m
             | _ -> "X-model-cannot-encode-the-install-message")
          | _ -> "X-model-compiler-rejects-the-source"
        end else op) (String.split_on_char ' ' script) in
    (run_script (String.concat " " toks), if _impl = "" then "-" else c01_verdict_ref arg _impl)

(* ctlser install:<n> : does an install message for a program of n statements serialize, and how long is it *)
let cmd_ctlser (_p : string) (arg : string) (_impl : string) : string * string =
  match String.split_on_char ':' arg with
  | ["install"; n] ->
    let nst = int_of_string n in
    let body = String.concat " " (List.init nst (fun i -> Printf.sprintf "(:= Report.a (+ Report.a %d))" i)) in
    let src = Printf.sprintf "(def (Report (volatile a 0))) (when true %s (report))" body in
    let bytes = List.init (String.length src) (fun i -> byte_table.(Char.code src.[i])) in
    (match compile bytes [] with
     | Inl (Ok (b, _)) ->
       let ne = n_of_int (List.length b.b_events) and ni = n_of_int (List.length b.b_instrs) in
       (match serialize_install N0 (n_of_int 9) ne ni (serialize_bin b) with
        | Ok m -> (Printf.sprintf "LEN%d" (List.length m), "ok")
        | Err -> ("SERERR", "ok")
        | Panic -> ("SERPANIC", "ok"))
     | _ -> ("COMPILE-ERR", "ok"))
  | ["install"; n; m] ->
    (* n two-instruction statements and m one-instruction statements; the header's length field is reported too *)
    let nst = int_of_string n and one = int_of_string m in
    let body = String.concat " " (List.init nst (fun i -> Printf.sprintf "(:= Report.a (+ Report.a %d))" i)
                                  @ List.init one (fun i -> Printf.sprintf "(:= Report.a %d)" i)) in
    let src = Printf.sprintf "(def (Report (volatile a 0))) (when true %s (report))" body in
    let bytes = List.init (String.length src) (fun i -> byte_table.(Char.code src.[i])) in
    let honest impl = (* C06: a produced message says its true length *)
      match String.split_on_char ' ' impl with
      | [l; h] when String.length l > 3 && String.sub l 0 3 = "LEN" && String.sub h 0 3 = "HDR" ->
        if String.sub l 3 (String.length l - 3) = String.sub h 3 (String.length h - 3) then "ok"
        else "FAIL:C06:header-length-differs-from-true-length"
      | _ -> "ok" in
    (match compile bytes [] with
     | Inl (Ok (b, _)) ->
       let ne = n_of_int (List.length b.b_events) and ni = n_of_int (List.length b.b_instrs) in
       (match serialize_install N0 (n_of_int 9) ne ni (serialize_bin b) with
        | Ok m -> (Printf.sprintf "LEN%d HDR%d" (List.length m) (int_of_n (le16 m (nat_of_int 2))), honest _impl)
        | Err -> ("SERERR", honest _impl)
        | Panic -> ("SERPANIC", honest _impl))
     | _ -> ("COMPILE-ERR", "ok"))
  | ["changeprog"; n] ->
    let k = int_of_string n in
    let regs = [| Control (N0, TNone, false); Control (n_of_int 1, TNone, true); Control (n_of_int 2, TNone, false);
                  Implicit (n_of_int 4, TNone); Implicit (n_of_int 5, TNone) |] in
    let fs = List.init k (fun i -> (regs.(i mod 5), n_of_int i)) in
    let honest impl =
      match String.split_on_char ' ' impl with
      | [l; h] when String.length l > 3 && String.sub l 0 3 = "LEN" && String.sub h 0 3 = "HDR" ->
        if String.sub l 3 (String.length l - 3) = String.sub h 3 (String.length h - 3) then "ok"
        else "FAIL:C06:header-length-differs-from-true-length"
      | _ -> "ok" in
    (match serialize_changeprog (n_of_int 1) (n_of_int 9) (n_of_int k) fs with
     | Ok m -> (Printf.sprintf "LEN%d HDR%d" (List.length m) (int_of_n (le16 m (nat_of_int 2))), honest _impl)
     | Err -> ("SERERR", honest _impl)
     | Panic -> ("SERPANIC", honest _impl))
  | _ -> ("UNPARSABLE", "-")

(* ------------------------------------------------------------------------------------------
   C01: the source-level semantics (Portus.Lang.SrcSem) run over the same script; the expected
   token sequence is compared with what the real libccp did with the bytes portus produced. *)

let name_of_string (s : string) : n list = List.init (String.length s) (fun i -> byte_table.(Char.code s.[i]))

type srcinfo = { sp : sprog; tys : vty list; final_scope : (n list * reg) list; uid_of_install : n }

let build_src (src_bytes : n list) : srcinfo option =
  match utf8_decode src_bytes with
  | None -> None
  | Some cps ->
    (match new_with_scope cps, compile src_bytes [] with
     | Inl (Ok (evs, sc0)), Inl (Ok (_, scf)) ->
       (* declared variables: report slots in order, then control slots *)
       let decls = List.filter_map (fun (nm, r) -> match r with
           | Report (i, t, v) -> Some (0, int_of_n i, nm, v, t, true)
           | Control (i, t, v) -> Some (1, int_of_n i, nm, v, t, false)
           | _ -> None) sc0.sc_named in
       let decls = List.sort compare decls in
       let mk (_, _, nm, v, t, isrep) =
         let (init, ty) = match t with
           | TNum (Some n) -> (Some n, VNum) | TBool (Some b) -> (Some (if b then n_of_int 1 else N0), VBool)
           | TBool None -> (None, VBool) | _ -> (None, VNum) in
         ({ sd_name = nm; sd_vol = v; sd_init = init; sd_report = isrep }, ty) in
       let dl = List.map mk decls in
       let sp = { sp_decls = List.map fst dl;
                  sp_events = List.map (fun ev -> { se_cond = ev.ev_flag; se_body = ev.ev_body }) evs } in
       Some { sp; tys = List.map snd dl; final_scope = scf.sc_named; uid_of_install = N0 }
     | _ -> None)

let find_name (scope : (n list * reg) list) (pred : reg -> bool) : n list option =
  match List.find_opt (fun (_, r) -> pred r) scope with Some (nm, _) -> Some nm | None -> None

let le_bytes (b : n list) (off : int) (k : int) : n =
  let rec go i acc = if i < 0 then acc else
      go (i - 1) (Model.N.add (Model.N.mul acc (n_of_int 256)) (match List.nth_opt b (off + i) with Some x -> x | None -> N0)) in
  go (k - 1) N0

let decode_updates (info : srcinfo) (body : n list) (count : int) : (n list * n) list =
  let rec go i acc =
    if i >= count then List.rev acc else begin
      let off = i * 13 in
      let cls = int_of_n (match List.nth_opt body off with Some x -> x | None -> N0) in
      let idx = le_bytes body (off + 1) 4 and v = le_bytes body (off + 5) 8 in
      let nm =
        if cls = 0 || cls = 8 then find_name info.final_scope (fun r -> match r with Control (i, _, _) -> i = idx | _ -> false)
        else if cls = 2 && int_of_n idx = 4 then Some (name_of_string "Cwnd")
        else if cls = 2 && int_of_n idx = 5 then Some (name_of_string "Rate")
        else None in
      go (i + 1) (match nm with Some n -> (n, v) :: acc | None -> acc)
    end in
  go 0 []

let expected_dump (info : srcinfo) (e : (n list * n) list) : string =
  let get nm = env_get e nm in
  let slots k pred = String.concat "," (List.init k (fun i ->
      match find_name info.final_scope (pred (n_of_int i)) with
      | Some nm -> n_to_hex (get nm) | None -> "0")) in
  Printf.sprintf "G%s|%s|%s|%s"
    (slots 16 (fun i r -> match r with Report (j, _, _) -> j = i | _ -> false))
    (slots 16 (fun i r -> match r with Control (j, _, _) -> j = i | _ -> false))
    (slots 8 (fun i r -> match r with Local (j, _) -> j = i | _ -> false))
    (slots 6 (fun i r -> match r with Implicit (j, _) -> j = i | _ -> false))

(* the expected token sequence according to the source semantics *)
let expected_tokens (info : srcinfo) (script : string) : string =
  let out = ref [] in
  let emit s = out := s :: !out in
  let d = ref dp_init in                          (* the libccp model decides which messages are accepted *)
  let st = ref { s_env = []; s_tz = n_of_int 1000 } in
  let pend = ref { pn_switch = false; pn_updates = [] } in
  let selected = ref false and uid = ref N0 and prims = ref prims0 and clock = ref (n_of_int 1000) in
  let have_conn = ref false in
  emit ("S" ^ hex_of_bytes (match serialize_msg (MRdy (n_of_int 7)) with Ok b -> b | _ -> []));
  emit "init0";
  List.iter (fun op ->
      if op <> "" then
        let rest = String.sub op 1 (String.length op - 1) in
        match op.[0] with
        | 'M' ->
          let bytes = bytes_of_hex rest in
          let (rc, d') = read_msg !d bytes in d := d'; emit ("M" ^ z_str rc);
          if rc = Z0 then begin
            let typ = int_of_n (le_bytes bytes 0 2) in
            let body = (try List.filteri (fun i _ -> i >= 8) bytes with _ -> []) in
            if typ = 2 then uid := le_bytes body 0 4
            else if typ = 4 then begin
              let cnt = int_of_n (le_bytes body 4 4) in
              selected := true;
              pend := { pn_switch = true; pn_updates = decode_updates info (List.filteri (fun i _ -> i >= 8) body) cnt }
            end else if typ = 3 then begin
              let cnt = int_of_n (le_bytes body 0 1) in
              pend := { !pend with pn_updates = !pend.pn_updates @ decode_updates info (List.filteri (fun i _ -> i >= 4) body) cnt }
            end
          end
        | 'N' ->
          (match String.split_on_char ',' rest with
           | [cw; mss; alg] ->
             let (d', evs) = conn_start !d (n_of_hex cw) (n_of_hex mss) (if alg = "-" then [] else bytes_of_hex alg) in
             d := d'; List.iter (fun e -> emit (ev_str e)) evs; emit "N1"; have_conn := true;
             st := { s_env = []; s_tz = n_of_int 1000 }
           | _ -> emit "N?")
        | 'P' ->
          (match !d.d_conn with
           | Some c -> let c' = set_prims c (List.map n_of_hex (String.split_on_char ',' rest)) in
             prims := c'.c_prims; d := { !d with d_conn = Some c' }
           | None -> emit "P-noconn")
        | 'T' -> clock := n_of_hex rest; d := { !d with d_clock = !clock }
        | 'I' ->
          if not !have_conn then emit "I-noconn"
          else if not !selected then emit "I-96"
          else begin
            let cx = { cx_clock = !clock; cx_dp_zero = n_of_int 1000; cx_prims = !prims } in
            let ((z, s'), outs) = invoke_src info.sp cx !pend !st in
            st := s'; pend := { pn_switch = false; pn_updates = [] };
            List.iter (fun o -> match o with
                | SCwnd v -> emit ("W" ^ n_to_hex v)
                | SRate v -> emit ("R" ^ n_to_hex v)
                | SReport fs -> emit ("S" ^ hex_of_bytes (measure_bytes (n_of_int 1) !uid fs (n_of_int (List.length fs))))) outs;
            emit ("I" ^ z_str z)
          end
        | 'G' -> if not !have_conn then emit "G-noconn" else emit (expected_dump info !st.s_env)
        | 'F' -> if !have_conn then (emit ("S" ^ hex_of_bytes (measure_bytes (n_of_int 1) N0 [] N0)); have_conn := false)
        | c -> emit (Printf.sprintf "?%c" c)) (String.split_on_char ' ' script);
  String.concat " " (List.rev !out)

let c01_verdict (arg : string) (impl : string) : string =
  match String.index_opt arg '|' with
  | None -> "-"
  | Some i ->
    let src = bytes_of_hex (String.sub arg 0 i) in
    let script = String.sub arg (i + 1) (String.length arg - i - 1) in
    (match build_src src with
     | None -> "n/a:unparsable"
     | Some info ->
       if not (wt_prog info.sp info.tys) then "n/a:not-well-typed"
       else begin
         let expect = expected_tokens info script in
         if expect = impl then "ok"
         else begin
           let a = Array.of_list (String.split_on_char ' ' impl) and e = Array.of_list (String.split_on_char ' ' expect) in
           let k = ref 0 in
           while !k < Array.length a && !k < Array.length e && a.(!k) = e.(!k) do incr k done;
           let what = if !k < Array.length e then String.make 1 e.(!k).[0] else "end" in
           if legacy_inf_prog info.sp then "n/a:legacy-infinity-initial-value"
           else if clobbers_prog info.sp then "FAIL:C01:clobbers:operand-overwritten-before-use"
           else Printf.sprintf "FAIL:C01:source-semantics-differ-at-token-%d-%s" !k what
         end
       end)

let () = c01_verdict_fwd := c01_verdict
