(* dp <srchex>|<script> : run the libccp model on a reference-datapath script and print what
   the C driver (cref/driver.c) prints for the same script *)
open Model
open Util

let z_str (z : z) : string =
  match z with
  | Z0 -> "0"
  | Zpos p -> string_of_int (int_of_n (Npos p))
  | Zneg p -> "-" ^ string_of_int (int_of_n (Npos p))

let mask32 = n_of_hex "ffffffff"
let w32 = n_of_hex "100000000"
let w64 = n_of_hex "10000000000000000"
let trunc32 x = Model.N.modulo x w32
let trunc64 x = Model.N.modulo x w64

let set_prims (c : conn) (f : n list) : conn =
  let g i = match List.nth_opt f i with Some v -> v | None -> N0 in
  let p = { p_bytes_acked = trunc32 (g 0); p_packets_acked = trunc32 (g 1); p_bytes_misordered = trunc32 (g 2);
            p_packets_misordered = trunc32 (g 3); p_ecn_bytes = trunc32 (g 4); p_ecn_packets = trunc32 (g 5);
            p_lost_pkts_sample = trunc32 (g 6); p_was_timeout = (if g 7 = N0 then N0 else n_of_int 1);
            p_rtt_sample_us = trunc64 (g 8); p_rate_outgoing = trunc64 (g 9); p_rate_incoming = trunc64 (g 10);
            p_bytes_in_flight = trunc32 (g 11); p_packets_in_flight = trunc32 (g 12); p_snd_cwnd = trunc32 (g 13);
            p_snd_rate = trunc64 (g 14); p_bytes_pending = trunc32 (g 15) } in
  { c with c_prims = p }

let ev_str = function
  | DSetCwnd v -> "W" ^ n_to_hex v
  | DSetRate v -> "R" ^ n_to_hex v
  | DSend b -> "S" ^ hex_of_bytes b

let rec take k l = if k = 0 then [] else match l with [] -> [] | x :: r -> x :: take (k - 1) r

let run_script (script : string) : string =
  let out = ref [] in
  let emit s = out := s :: !out in
  let d = ref dp_init in
  emit ("S" ^ hex_of_bytes (match serialize_msg (MRdy (n_of_int 7)) with Ok b -> b | _ -> []));
  emit "init0";
  List.iter (fun op ->
      if op <> "" then
        let rest = String.sub op 1 (String.length op - 1) in
        match op.[0] with
        | 'M' -> let (rc, d') = read_msg !d (bytes_of_hex rest) in d := d'; emit ("M" ^ z_str rc)
        | 'N' ->
          (match String.split_on_char ',' rest with
           | [cw; mss; alg] ->
             let (d', evs) = conn_start !d (n_of_hex cw) (n_of_hex mss) (if alg = "-" then [] else bytes_of_hex alg) in
             d := d'; List.iter (fun e -> emit (ev_str e)) evs; emit "N1"
           | _ -> emit "N?")
        | 'P' ->
          (match !d.d_conn with
           | None -> emit "P-noconn"
           | Some c -> d := { !d with d_conn = Some (set_prims c (List.map n_of_hex (String.split_on_char ',' rest))) })
        | 'T' -> d := { !d with d_clock = n_of_hex rest }
        | 'I' ->
          (match !d.d_conn with
           | None -> emit "I-noconn"
           | Some _ -> let ((rc, d'), evs) = invoke !d in d := d'; List.iter (fun e -> emit (ev_str e)) evs; emit ("I" ^ z_str rc))
        | 'G' ->
          (match !d.d_conn with
           | None -> emit "G-noconn"
           | Some c ->
             let rg = c.c_regs in
             let f l k = String.concat "," (List.map n_to_hex (take k l)) in
             emit (Printf.sprintf "G%s|%s|%s|%s" (f rg.r_report 16) (f rg.r_control 16) (f rg.r_local 8) (f rg.r_impl 6)))
        | 'F' ->
          (match !d.d_conn with
           | None -> ()
           | Some c -> emit ("S" ^ hex_of_bytes (measure_bytes c.c_index N0 [] N0)); d := { !d with d_conn = None })
        | c -> emit (Printf.sprintf "?%c" c)) (String.split_on_char ' ' script);
  String.concat " " (List.rev !out)

let cmd_dp (_p : string) (arg : string) (_impl : string) : string * string =
  match String.index_opt arg '|' with
  | None -> ("UNPARSABLE", "-")
  | Some i ->
    let script = String.sub arg (i + 1) (String.length arg - i - 1) in
    (run_script script, if _impl = "" then "-" else "ok")

(* ctlser install:<n> : does an install message for a program of n statements serialize, and how long is it *)
let cmd_ctlser (_p : string) (arg : string) (_impl : string) : string * string =
  match String.split_on_char ':' arg with
  | ["install"; n] ->
    let nst = int_of_string n in
    let body = String.concat " " (List.init nst (fun i -> Printf.sprintf "(:= Report.a (+ Report.a %d))" i)) in
    let src = Printf.sprintf "(def (Report (volatile a 0))) (when true %s (report))" body in
    let bytes = List.init (String.length src) (fun i -> byte_table.(Char.code src.[i])) in
    (match compile bytes [] with
     | Inl (Ok (b, _)) ->
       let ne = n_of_int (List.length b.b_events) and ni = n_of_int (List.length b.b_instrs) in
       (match serialize_install N0 (n_of_int 9) ne ni (serialize_bin b) with
        | Ok m -> (Printf.sprintf "LEN%d" (List.length m), "ok")
        | Err -> ("SERERR", "ok")
        | Panic -> ("SERPANIC", "ok"))
     | _ -> ("COMPILE-ERR", "ok"))
  | _ -> ("UNPARSABLE", "-")
