(* C08: receive cursor over a scripted transport *)
open Model
open Util

let parse_ev (s : string) : ev =
  let s = String.trim s in
  if s = "E" then RecvErr
  else if s = "S" then StopReq
  else if String.length s > 1 && s.[0] = 'D' then begin
    let i = String.index s ':' in
    let a = n_of_hex (String.sub s 1 (i - 1)) in
    let h = String.sub s (i + 1) (String.length s - i - 1) in
    Dgram (a, bytes_of_hex h)
  end else failwith ("bad event " ^ s)

let parse_events (arg : string) : ev list =
  if arg = "-" then [] else List.map parse_ev (Wire.split_msgs arg)

let yields_str (ys : (msg * n) list) : string =
  if ys = [] then "OK -"
  else "OK " ^ String.concat " ; " (List.map (fun (m, a) -> Wire.msg_str m ^ "@" ^ n_to_hex a) ys)

(* the harness sets the stop flag again once after the first stop (a stop request in the script, or its
   end) and reads on: what follows a stop request is read by a cursor that starts afresh (CursorFacts.run_spec
   holds from every fresh cursor, whatever its buffer holds) *)
let rec split_at_stop (evs : ev list) : ev list * ev list option =
  match evs with
  | [] -> ([], None)
  | StopReq :: r -> ([StopReq], Some r)
  | e :: r -> let (a, b) = split_at_stop r in (e :: a, b)

let resumed_str (first : (msg * n) list) (second : (msg * n) list) : string =
  let item pre (m, a) = pre ^ Wire.msg_str m ^ "@" ^ n_to_hex a in
  let all = Stdlib.List.map (item "") first @ Stdlib.List.map (item "R:") second in
  if all = [] then "OK -" else "OK " ^ String.concat " ; " all

let cmd_cursor (param : string) (arg : string) (impl : string) : string * string =
  let bufsize = nat_of_int (int_of_string param) in
  let evs = parse_events arg in
  let (pre, rest) = split_at_stop evs in
  (* a run that an undecodable datagram ended (next() returned None with the flag still set) never reached
     the stop request: nothing is resumed.  It reaches the request iff every datagram before it, cut to the
     buffer, decodes to its end. *)
  let reaches_stop = Stdlib.List.for_all (fun e -> match e with
      | Dgram (_, d) -> let d' = firstn bufsize d in snd (decode_until (length d') d')
      | _ -> true) pre in
  let stopped_normally _ys = reaches_stop in
  let mr = match run_script bufsize pre with
    | Panic -> "PANIC" | Err -> "OUT-OF-FUEL"
    | Ok ys ->
      (match rest with
       | Some r when stopped_normally ys -> (match run_script bufsize r with Ok ys2 -> resumed_str ys ys2 | Panic -> "PANIC" | Err -> "OUT-OF-FUEL")
       | _ -> resumed_str ys []) in
  let spec = match rest with
    | Some r when reaches_stop -> resumed_str (spec_run bufsize pre) (spec_run bufsize r)
    | _ -> resumed_str (spec_run bufsize pre) [] in
  let verdict =
    if impl = "" then "-"
    else if impl = spec then "ok"
    else "FAIL:yield-is-not-a-function-of-its-own-datagram" in
  (mr, verdict)
