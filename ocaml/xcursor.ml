(* C08: receive cursor over a scripted transport *)
open Model
open Util

let parse_ev (s : string) : ev =
  let s = String.trim s in
  if s = "E" then RecvErr
  else if s = "S" then StopReq
  else if String.length s > 1 && s.[0] = 'D' then begin
    let i = String.index s ':' in
    let a = n_of_hex (String.sub s 1 (i - 1)) in
    let h = String.sub s (i + 1) (String.length s - i - 1) in
    Dgram (a, bytes_of_hex h)
  end else failwith ("bad event " ^ s)

let parse_events (arg : string) : ev list =
  if arg = "-" then [] else List.map parse_ev (Wire.split_msgs arg)

let yields_str (ys : (msg * n) list) : string =
  if ys = [] then "OK -"
  else "OK " ^ String.concat " ; " (List.map (fun (m, a) -> Wire.msg_str m ^ "@" ^ n_to_hex a) ys)

let cmd_cursor (param : string) (arg : string) (impl : string) : string * string =
  let bufsize = nat_of_int (int_of_string param) in
  let evs = parse_events arg in
  let mr = match run_script bufsize evs with
    | Panic -> "PANIC" | Err -> "OUT-OF-FUEL" | Ok ys -> yields_str ys in
  let verdict =
    if impl = "" then "-"
    else if impl = yields_str (spec_run bufsize evs) then "ok"
    else "FAIL:yield-is-not-a-function-of-its-own-datagram" in
  (mr, verdict)
