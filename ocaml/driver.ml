(* Line-oriented driver around the extracted model.
   stdin : one case per line,  cmd <TAB> arg <TAB> implementation-result
   stdout: one line per case,  model-result <TAB> verdict
   verdict is "-" (no predicate), "ok", "n/a" or "FAIL:<reason>": the property's own executable
   predicate (a Gallina definition, extracted) evaluated on the implementation's result. *)
(* a command is "name" or "name:param" *)
let table : (string, string -> string -> string -> string * string) Hashtbl.t = Hashtbl.create 64
let () =
  List.iter (fun (k, f) -> Hashtbl.replace table k f) [
    "frombuf", (fun _ -> Wire.cmd_frombuf);
    "rt", (fun _ -> Wire.cmd_rt);
    "concat", (fun _ -> Wire.cmd_concat);
    "cursor", Xcursor.cmd_cursor;
    "loop", Xloop.cmd_loop;
    "ignore", Xloop.cmd_ignore;
    "isolate", Xloop.cmd_isolate;
    "compile", Xlang.cmd_compile;
    "dp", Xdp.cmd_dp;
    "ctlser", Xdp.cmd_ctlser;
    "uids", Xconc.cmd_uids;
    "transport", Xconc.cmd_transport;
    "apiorder", Xconc.cmd_apiorder;
    "unixapi", Xconc.cmd_unixapi;
  ]

let () =
  let out = Buffer.create 65536 in
  (try
     while true do
       let line = input_line stdin in
       let cmd, arg, impl =
         match String.split_on_char '\t' line with
         | [c] -> c, "", ""
         | [c; a] -> c, a, ""
         | c :: a :: i :: _ -> c, a, i
         | [] -> "", "", "" in
       let (m, v) =
         let name, param = match String.index_opt cmd ':' with
           | None -> cmd, ""
           | Some i -> String.sub cmd 0 i, String.sub cmd (i + 1) (String.length cmd - i - 1) in
         match Hashtbl.find_opt table name with
         | None -> ("UNKNOWN-COMMAND", "-")
         | Some f ->
           (try f param arg impl with
            | Stack_overflow -> ("DRIVER-STACK-OVERFLOW", "-")
            | e -> ("DRIVER-EXCEPTION " ^ Printexc.to_string e, "-")) in
       Buffer.add_string out m; Buffer.add_char out '\t';
       Buffer.add_string out v; Buffer.add_char out '\n';
       if Buffer.length out > 60000 then (print_string (Buffer.contents out); Buffer.clear out)
     done
   with End_of_file -> ());
  print_string (Buffer.contents out)
