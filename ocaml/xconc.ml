(* C17 / C19 stress results: what the proved models say must be observed *)
let starts_with p s = String.length s >= String.length p && String.sub s 0 (String.length p) = p

let cmd_uids (_p : string) (_arg : string) (impl : string) : string * string =
  let expect = "distinct clone=true per-thread-increasing=true" in
  (expect, if impl = "" then "-" else if starts_with "DUPLICATE" impl then "FAIL:C17:duplicate-uid"
    else if impl <> expect then "FAIL:C17:uid-not-preserved-or-not-increasing" else "ok")

let cmd_transport (_p : string) (arg : string) (impl : string) : string * string =
  let expect =
    if starts_with "chan-nonblocking-empty" arg || starts_with "unix-nonblocking-empty" arg then "error-at-once"
    else if starts_with "chan-oversized" arg then "oversized-refused-next-delivered"
    else if starts_with "dead-handle" arg then "error"
    else "intact-once-in-order" in
  (expect, if impl = "" then "-" else if impl = expect then "ok" else "FAIL:C19:" ^ (String.map (fun c -> if c = ' ' then '-' else c) (String.sub impl 0 (min 60 (String.length impl)))))

(* C18 through the builder API: wherever the stop handle was supplied, clearing it (or kill) makes the
   run return success, the transport is closed once and the handle's reference is given back *)
let cmd_apiorder (_p : string) (_arg : string) (impl : string) : string * string =
  if starts_with "late-handle" _arg then
    ("error", if impl = "" then "-" else if impl = "error" then "ok"
      else "FAIL:C11:a-command-through-a-handle-that-outlived-the-run-reported-success:" ^ (String.map (fun c -> if c = ' ' then '-' else c) impl)
           ^ ",C19:send-through-a-handle-whose-runtime-has-shut-down-did-not-return-an-error") else
  let expect = if starts_with "shared-handle" _arg then "returned-ok closed=2 strong=1 request-kept=true" else "returned-ok closed=1 strong=1 request-kept=true" in
  (expect, if impl = "" then "-" else if impl = expect then "ok"
    else "FAIL:C18:" ^ (String.map (fun c -> if c = ' ' then '-' else c) (String.sub impl 0 (min 60 (String.length impl)))))

(* the real unix-datagram transport: stop latency per constructor (C18), sender addresses verbatim
   (C19, C16/C09), a long run of sends does not redirect later ones (C19) *)
let cmd_unixapi (_p : string) (arg : string) (impl : string) : string * string =
  let (expect, tag) =
    if starts_with "stop " arg then ("returned-ok", "C18:idle-runtime-on-a-unix-socket-did-not-stop:")
    else if starts_with "sender-address" arg then ("verbatim", "C16:sender-address-not-reported-verbatim:")
    else if starts_with "chan-run" arg then ("same-dispatch", "C16:ignored-datagrams-changed-what-the-runtime-did-with-the-ones-behind-them:")
    else ("each-datagram-reached-its-addressee", "C19:") in
  let clean s = String.map (fun c -> if c = ' ' || c = ',' then '-' else c) (String.sub s 0 (min 70 (String.length s))) in
  (expect, if impl = "" then "-" else if impl = expect then "ok"
    else if starts_with "sender-address" arg then
      (* the receiver learns the sender's bound address: C19's clause, and what C09/C16 key datapaths by *)
      "FAIL:" ^ tag ^ clean impl ^ ",C19:receiver-did-not-learn-the-sender's-bound-address,C09:two-senders-could-be-taken-for-one-datapath"
    else "FAIL:" ^ tag ^ clean impl)
