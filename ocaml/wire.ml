(* Wire codec commands: canonical strings shared with the Rust harness. *)
open Model
open Util

let alg_str = function None -> "-" | Some b -> "s:" ^ (if b = [] then "" else hex_of_bytes b)
let alg_of_str s =
  if s = "-" then None
  else let h = String.sub s 2 (String.length s - 2) in
    Some (if h = "" then [] else bytes_of_hex h)

let msg_str (m : msg) : string =
  match m with
  | MCr c -> Printf.sprintf "CR %s %s %s %s %s %s %s %s"
               (n_to_hex c.c_sid) (n_to_hex c.c_init_cwnd) (n_to_hex c.c_mss)
               (n_to_hex c.c_src_ip) (n_to_hex c.c_src_port) (n_to_hex c.c_dst_ip)
               (n_to_hex c.c_dst_port) (alg_str c.c_alg)
  | MMs x -> Printf.sprintf "MS %s %s %s %s" (n_to_hex x.m_sid) (n_to_hex x.m_uid)
               (n_to_hex x.m_nf) (hexlist_of x.m_fields)
  | MRdy r -> Printf.sprintf "RDY %s" (n_to_hex (rd_id r))
  | MOther r -> Printf.sprintf "OTHER %s %s %s %s" (n_to_hex r.r_typ) (n_to_hex r.r_len)
                  (n_to_hex r.r_sid) (hex_of_bytes r.r_bytes)

exception Unparsable of string

let msg_of_tokens (t : string list) : msg =
  match t with
  | ["CR"; sid; cw; mss; sip; sp; dip; dp; alg] ->
    MCr { c_sid = n_of_hex sid; c_init_cwnd = n_of_hex cw; c_mss = n_of_hex mss;
          c_src_ip = n_of_hex sip; c_src_port = n_of_hex sp; c_dst_ip = n_of_hex dip;
          c_dst_port = n_of_hex dp; c_alg = alg_of_str alg }
  | ["MS"; sid; uid; nf; fs] ->
    MMs { m_sid = n_of_hex sid; m_uid = n_of_hex uid; m_nf = n_of_hex nf; m_fields = of_hexlist fs }
  | ["RDY"; id] -> MRdy (n_of_hex id)
  | ["OTHER"; typ; len; sid; b] ->
    MOther { r_typ = n_of_hex typ; r_len = n_of_hex len; r_sid = n_of_hex sid; r_bytes = bytes_of_hex b }
  | _ -> raise (Unparsable (String.concat " " t))

let decode_result_str (r : (msg * nat) outcome) : string =
  match r with
  | Panic -> "PANIC"
  | Err -> "ERR"
  | Ok (m, n) -> Printf.sprintf "OK %d %s" (int_of_nat n) (msg_str m)

(* parse an implementation result; INS (an install message object) has no model counterpart *)
let decode_result_of_str (s : string) : (msg * nat) outcome option =
  match split_ws s with
  | ["PANIC"] -> Some Panic
  | ["ERR"] -> Some Err
  | "OK" :: n :: rest ->
    (match rest with
     | ["INS"] -> None
     | _ -> Some (Ok (msg_of_tokens rest, nat_of_int (int_of_string n))))
  | _ -> raise (Unparsable s)

let bytes_result_str (r : n list outcome) : string =
  match r with Panic -> "PANIC" | Err -> "ERR" | Ok b -> "OK " ^ hex_of_bytes b

(* frombuf <hex> : model result, and C04's predicate evaluated on the implementation's result *)
let cmd_frombuf (arg : string) (impl : string) : string * string =
  let buf = bytes_of_hex arg in
  let mr = decode_result_str (from_buf buf) in
  let verdict =
    if impl = "" then "-"
    else if String.length impl >= 19 && String.sub impl 0 19 = "ALIGNMENT-DEPENDENT" then "FAIL:C04:decoding-depends-on-where-the-buffer-lies-in-memory"
    else
      match decode_result_of_str impl with
      | None -> "FAIL:typed-install-message-produced"
      | Some r -> if c04_ok buf r then "ok" else "FAIL:c04_ok"
  in (mr, verdict)

(* rt <msgstr> : serialize then decode; C07's predicate on the implementation's result *)
let cmd_rt (arg : string) (impl : string) : string * string =
  let m = msg_of_tokens (split_ws arg) in
  let ser = serialize_msg m in
  let mr = match ser with
    | Ok bs -> bytes_result_str ser ^ " | " ^ decode_result_str (from_buf bs)
    | _ -> bytes_result_str ser in
  let verdict =
    if impl = "" then "-"
    else if not (msg_in_range m) then "n/a"
    else begin
      (* in range: must encode, decode to the same message, consume everything *)
      match String.index_opt impl '|' with
      | None -> "FAIL:in-range-message-not-encoded"
      | Some i ->
        let enc = String.trim (String.sub impl 0 i) in
        let dec = String.trim (String.sub impl (i + 1) (String.length impl - i - 1)) in
        (match split_ws enc with
         | ["OK"; hex] ->
           let expect = Printf.sprintf "OK %d %s" (String.length hex / 2) (msg_str m) in
           if dec = expect then "ok" else "FAIL:roundtrip-differs"
         | _ -> "FAIL:in-range-message-not-encoded")
    end
  in (mr, verdict)

(* concat <msg> ; <msg> ; ... : serialize each, decode the concatenation message by message *)
let split_msgs (arg : string) : string list =
  (* separator is " ; " *)
  let parts = ref [] and cur = Buffer.create 64 in
  let n = String.length arg in
  let i = ref 0 in
  while !i < n do
    if !i + 2 < n && arg.[!i] = ' ' && arg.[!i+1] = ';' && arg.[!i+2] = ' ' then begin
      parts := Buffer.contents cur :: !parts; Buffer.clear cur; i := !i + 3 end
    else begin Buffer.add_char cur arg.[!i]; incr i end
  done;
  parts := Buffer.contents cur :: !parts;
  List.rev !parts

let cmd_concat (arg : string) (impl : string) : string * string =
  let ms = List.map (fun s -> msg_of_tokens (split_ws s)) (split_msgs arg) in
  let rec ser_all = function
    | [] -> Some []
    | m :: r -> (match serialize_msg m, ser_all r with
        | Ok b, Some rest -> Some (b @ rest)
        | _ -> None) in
  let mr = match ser_all ms with
    | None -> "SERFAIL"
    | Some buf ->
      (match decode_all (length buf) buf with
       | Panic -> "PANIC" | Err -> "ERR"
       | Ok ds -> "OK " ^ String.concat " ; " (List.map msg_str ds)) in
  let verdict =
    if impl = "" then "-"
    else if not (List.for_all msg_in_range ms) then "n/a"
    else if impl = "OK " ^ String.concat " ; " (List.map msg_str ms) then "ok"
    else "FAIL:concatenation-does-not-decode-to-the-same-sequence" in
  (mr, verdict)
