(* compile <srchex> <updates> <names> : image bytes and scope lookups *)
open Model
open Util

let ty_str (t : ty) : string =
  match t with
  | TBool None -> "b-"
  | TBool (Some b) -> if b then "b1" else "b0"
  | TNum None -> "n-"
  | TNum (Some n) -> "n" ^ n_to_hex n
  | TName s ->
    (* code points -> UTF-8 hex *)
    "N" ^ String.concat "" (List.map (fun cp ->
        let c = int_of_n cp in
        let b = Buffer.create 4 in
        if c < 0x80 then Buffer.add_char b (Char.chr c)
        else if c < 0x800 then (Buffer.add_char b (Char.chr (0xC0 lor (c lsr 6))); Buffer.add_char b (Char.chr (0x80 lor (c land 0x3F))))
        else if c < 0x10000 then (Buffer.add_char b (Char.chr (0xE0 lor (c lsr 12))); Buffer.add_char b (Char.chr (0x80 lor ((c lsr 6) land 0x3F))); Buffer.add_char b (Char.chr (0x80 lor (c land 0x3F))))
        else (Buffer.add_char b (Char.chr (0xF0 lor (c lsr 18))); Buffer.add_char b (Char.chr (0x80 lor ((c lsr 12) land 0x3F))); Buffer.add_char b (Char.chr (0x80 lor ((c lsr 6) land 0x3F))); Buffer.add_char b (Char.chr (0x80 lor (c land 0x3F))));
        String.concat "" (List.map (fun ch -> Printf.sprintf "%02x" (Char.code ch)) (List.init (Buffer.length b) (Buffer.nth b)))) s)
  | TNone -> "_"

let reg_full (r : reg) : string =
  let d i = string_of_int (int_of_n i) in
  match r with
  | Control (i, t, v) -> Printf.sprintf "C%s%s:%s" (d i) (if v then "v" else "") (ty_str t)
  | Report (i, t, v) -> Printf.sprintf "R%s%s:%s" (d i) (if v then "v" else "") (ty_str t)
  | Implicit (i, t) -> Printf.sprintf "I%s:%s" (d i) (ty_str t)
  | Local (i, t) -> Printf.sprintf "L%s:%s" (d i) (ty_str t)
  | Primitive (i, t) -> Printf.sprintf "P%s:%s" (d i) (ty_str t)
  | Tmp (i, t) -> Printf.sprintf "T%s:%s" (d i) (ty_str t)
  | ImmNum n -> "N" ^ n_to_hex n
  | ImmBool b -> if b then "B1" else "B0"
  | RNone -> "X"

let decode_name (h : string) : n list option =
  utf8_decode (if h = "00" then [] else bytes_of_hex h)

let parse_arg (arg : string) =
  match String.split_on_char ' ' arg with
  | [src; ups; names] ->
    let src = bytes_of_hex src in
    let ups = if ups = "-" then [] else
        List.filter_map (fun kv -> match String.index_opt kv '=' with
            | None -> None
            | Some i -> (match decode_name (String.sub kv 0 i) with
                | Some n -> Some (n, n_of_hex (String.sub kv (i + 1) (String.length kv - i - 1)))
                | None -> None)) (String.split_on_char ',' ups) in
    let names = if names = "-" then [] else List.map decode_name (String.split_on_char ',' names) in
    Some (src, ups, names)
  | _ -> None

let fnv64 (s : string) : string =
  (* FNV-1a, 64 bit, on OCaml's 63-bit ints via Int64 *)
  let h = ref 0xcbf29ce484222325L in
  String.iter (fun c -> h := Int64.mul (Int64.logxor !h (Int64.of_int (Char.code c))) 0x100000001b3L) s;
  Printf.sprintf "%016Lx" !h

(* the properties' own predicates, evaluated on the implementation's result *)
let verdict_of (param : string) (arg : string) (impl : string) : string =
  if impl = "" then "-" else begin
    let fails = ref [] in
    if impl = "PANIC" then fails := "C10:compiler-panicked" :: !fails;
    if impl = "TIMEOUT" then fails := "C10:compiler-did-not-return-within-the-time-limit" :: !fails;
    let params = if param = "" then [] else List.filter_map (fun kv -> match String.index_opt kv '=' with
        | Some i -> Some (String.sub kv 0 i, String.sub kv (i + 1) (String.length kv - i - 1)) | None -> None) (String.split_on_char ';' param) in
    (match String.split_on_char ' ' impl with
     | ["OK"; nev; img; look] ->
       let bytes = bytes_of_hex img in
       (* C03: structural contract *)
       if not (image_wf (nat_of_int (int_of_string nev)) bytes) then fails := "C03:image-violates-structural-contract" :: !fails;
       (* C03, first clause read against the source: one initialisation per declared variable with a literal
          initial value (declared names pairwise distinct, no compile-time overrides): that many DEF records *)
       (match String.split_on_char ' ' arg with
        | [srchex; "-"; _] ->
          (match utf8_decode (bytes_of_hex srchex) with
           | Some cps ->
             (match p_defs (parse_fuel cps) cps with
              | POk (decls, _) ->
                let nms = Stdlib.List.map (fun ((_, n), _) -> n) decls in
                let distinct = Stdlib.List.length (Stdlib.List.sort_uniq compare nms) = Stdlib.List.length nms in
                let nlit = Stdlib.List.length (Stdlib.List.filter (fun (_, t) -> match t with TNum (Some _) | TBool (Some _) -> true | _ -> false) decls) in
                let ndef = ref 0 in
                let nevi = int_of_string nev in
                let rec go off = if off + 16 <= Stdlib.List.length bytes then begin
                    (match Stdlib.List.nth_opt bytes off with Some b when int_of_n b = 2 -> incr ndef | _ -> ()); go (off + 16) end in
                go (16 * nevi);
                if distinct && !ndef <> nlit then fails := "C03:initialisations-do-not-match-the-declared-variables-with-a-literal-initial-value" :: !fails
              | _ -> ())
           | None -> ())
        | _ -> ());
       (* C13: built-in ABI and distinct slots among the looked-up names *)
       (match String.split_on_char ' ' arg with
        | [_; _; names] when names <> "-" ->
          let ns = String.split_on_char ',' names and rs = String.split_on_char ',' look in
          if List.length ns = List.length rs then begin
            let tbl = List.combine ns rs in
            let hexname s = String.concat "" (List.map (fun c -> Printf.sprintf "%02x" (Char.code c)) (List.init (String.length s) (String.get s))) in
            List.iter (fun (n, expect) -> match List.assoc_opt (hexname n) tbl with
                | Some r when r <> expect && r <> "-" && (r.[0] = 'I' || r.[0] = 'P') -> fails := "C13:builtin-abi" :: !fails
                | _ -> ()) [("Cwnd", "I4:n-"); ("Micros", "I3:n-"); ("Rate", "I5:n-"); ("Ack.bytes_acked", "P0:n-");
                            ("Flow.was_timeout", "P14:b-"); ("__eventFlag", "I0:b-"); ("__shouldReport", "I2:b-")];
            (* distinct names must have distinct slots per class, and report slots are 0..n-1 *)
            let seen = Hashtbl.create 32 in
            let uniq = List.sort_uniq compare tbl in
            List.iter (fun (n, r) ->
                if r <> "-" && String.length r > 1 && (r.[0] = 'R' || r.[0] = 'C' || r.[0] = 'L') then begin
                  let slot = String.sub r 0 (try String.index r ':' with Not_found -> String.length r) in
                  let slot = if slot.[String.length slot - 1] = 'v' then String.sub slot 0 (String.length slot - 1) else slot in
                  (match Hashtbl.find_opt seen slot with
                   | Some n' when n' <> n -> fails := "C13:two-names-share-a-slot" :: !fails
                   | _ -> Hashtbl.replace seen slot n)
                end) uniq;
            (* "the scope's mapping is the one the emitted instructions use": a name the source binds (the
               target of a bind in an accepted program) is in the returned scope *)
            (match String.split_on_char ' ' arg with
             | srchex :: _ ->
               let src = (try String.init (String.length srchex / 2) (fun i -> Char.chr (int_of_string ("0x" ^ String.sub srchex (2 * i) 2))) with _ -> "") in
               (* drop comments *)
               let b = Buffer.create (String.length src) in
               let inc = ref false in
               String.iter (fun c -> if !inc then (if c = '\n' then (inc := false; Buffer.add_char b c)) else if c = '#' then inc := true else Buffer.add_char b c) src;
               let t = Buffer.contents b in
               let n = String.length t in
               let is_name_char c = (c >= 'a' && c <= 'z') || (c >= 'A' && c <= 'Z') || (c >= '0' && c <= '9') || c = '_' || c = '.' in
               let i = ref 0 in
               while !i < n do
                 if t.[!i] = '(' then begin
                   let j = ref (!i + 1) in
                   while !j < n && (t.[!j] = ' ' || t.[!j] = '\t' || t.[!j] = '\n' || t.[!j] = '\r') do incr j done;
                   let kw = if !j + 2 <= n && String.sub t !j 2 = ":=" then 2 else if !j + 4 <= n && String.sub t !j 4 = "bind" then 4 else 0 in
                   if kw > 0 then begin
                     let k = ref (!j + kw) in
                     let ws0 = !k in
                     while !k < n && (t.[!k] = ' ' || t.[!k] = '\t' || t.[!k] = '\n' || t.[!k] = '\r') do incr k done;
                     if !k > ws0 then begin
                       let e = ref !k in
                       while !e < n && is_name_char t.[!e] do incr e done;
                       if !e > !k && !e < n && (t.[!e] = ' ' || t.[!e] = '\t' || t.[!e] = '\n' || t.[!e] = '\r') then begin
                         let nm = String.sub t !k (!e - !k) in
                         let first = nm.[0] in
                         if not (first >= '0' && first <= '9') && nm <> "true" && nm <> "false" then
                           (match List.assoc_opt (hexname nm) tbl with
                            | Some "-" -> fails := "C13:a-name-the-program-binds-is-missing-from-the-returned-scope" :: !fails
                            | _ -> ())
                       end
                     end
                   end
                 end;
                 incr i
               done
             | [] -> ());
            let decls_covered = ref true in
            (* a variable declared with the Report. prefix (or inside the Report block) is a report
               variable, any other declared variable a control variable *)
            (match String.split_on_char ' ' arg with
             | srchex :: _ ->
               (match utf8_decode (bytes_of_hex srchex) with
                | Some cps ->
                  (match p_defs (parse_fuel cps) cps with
                   | POk (decls, _) ->
                     List.iter (fun ((_, n), _) ->
                         if List.for_all (fun c -> int_of_n c < 128) n then begin
                           let hn = String.concat "" (List.map (fun c -> Printf.sprintf "%02x" (int_of_n c)) n) in
                           (match List.assoc_opt hn tbl with Some r when r <> "-" -> () | _ -> decls_covered := false);
                           match List.assoc_opt hn tbl with
                           | Some r when r <> "-" && String.length r > 0 ->
                             let want = if has_report_prefix n then 'R' else 'C' in
                             if r.[0] <> want then
                               fails := (if want = 'C' then "C13:declared-control-variable-is-not-in-a-control-slot"
                                         else "C13:declared-report-variable-is-not-in-a-report-slot") :: !fails;
                             (* it carries the literal initial value it was declared with, or none: never a
                                name waiting to be resolved (NameFacts.p_defs_decls: tname_free) *)
                             (match String.index_opt r ':' with
                              | Some k when k + 1 < String.length r && r.[k + 1] = 'N' ->
                                fails := "C13:declared-variable-carries-a-name-instead-of-its-declared-initial-value" :: !fails
                              | _ -> ())
                           | _ -> ()
                         end else decls_covered := false) decls
                   | _ -> ())
                | None -> ())
             | _ -> ());
            let rslots = Hashtbl.fold (fun k _ acc -> if k.[0] = 'R' then int_of_string (String.sub k 1 (String.length k - 1)) :: acc else acc) seen [] in
            let nr = List.length rslots in
            (* (only when every declared name is among the names that were looked up) *)
            if List.exists (fun i -> i >= nr) rslots && List.length ns < 140 && !decls_covered then fails := "C13:report-slots-not-0..n-1" :: !fails
          end
        | _ -> ())
     | _ -> ());
    (* C14: what must happen to a given literal *)
    (match List.assoc_opt "lit" params with
     | Some d ->
       let v = List.fold_left (fun acc c -> Model.N.add (Model.N.mul acc (n_of_int 10)) (n_of_int (Char.code c - 48))) N0 (List.init (String.length d) (String.get d)) in
       let lt a b = Model.N.ltb a b in
       let two31 = n_of_hex "80000000" and maxu64 = n_of_hex "ffffffffffffffff" in
       let accepted = String.length impl >= 2 && String.sub impl 0 2 = "OK" in
       if lt v two31 then begin
         if not accepted then fails := "C14:literal-below-2^31-rejected" :: !fails
         else begin
           (* the 32-bit immediate must be present in the image exactly *)
           let le = String.concat "" (List.map (fun b -> Printf.sprintf "%02x" (int_of_n b)) (enc_le (nat_of_int 4) v)) in
           let img = List.nth (String.split_on_char ' ' impl) 2 in
           let rec has i = i + 10 <= String.length img && ((i mod 2 = 0 && String.sub img i 10 = "01" ^ le) || has (i + 2)) in
           if not (has 0) then fails := "C14:literal-not-in-image" :: !fails
         end
       end else if Model.N.eqb v maxu64 then ()
       else if accepted then begin
         fails := "C14:unencodable-literal-accepted" :: !fails;
         (* C06: an install message was produced for a constant its immediate field cannot say *)
         fails := "C06:unrepresentable-constant-emitted-instead-of-an-error" :: !fails end;
       (* in override position: the value became the initial value of exactly the named variable *)
       (match String.split_on_char ' ' arg, String.split_on_char ' ' impl with
        | [_; ups0; names], ["OK"; _; _; look] when ups0 <> "-" && names <> "-" &&
                                                     (* in a list, the entry that carries the literal is the last one, and no other names its variable *)
                                                     (let es = String.split_on_char ',' ups0 in
                                                      let nm e = match String.index_opt e '=' with Some i -> String.sub e 0 i | None -> e in
                                                      let last = nm (Stdlib.List.nth es (Stdlib.List.length es - 1)) in
                                                      Stdlib.List.length (Stdlib.List.filter (fun e -> nm e = last) es) = 1) ->
          let ups = (let es = String.split_on_char ',' ups0 in Stdlib.List.nth es (Stdlib.List.length es - 1)) in
          (match String.index_opt ups '=' with
           | Some i ->
             let tname = String.sub ups 0 i in
             let ns = String.split_on_char ',' names and rs = String.split_on_char ',' look in
             if List.length ns = List.length rs then begin
               let want = ":n" ^ n_to_hex v in
               let ends_with suf s = String.length s >= String.length suf && String.sub s (String.length s - String.length suf) (String.length suf) = suf in
               (match List.assoc_opt tname (List.combine ns rs) with
                | Some r when r <> "-" && (r.[0] = 'C' || r.[0] = 'R') && not (ends_with want r) ->
                  fails := "C14:override-did-not-become-the-initial-value-of-the-named-variable" :: !fails
                | _ -> ())
             end
           | None -> ())
        | _ -> ())
     | None -> ());
    (* C20: every layout of one program gives the same image and scope *)
    (match List.assoc_opt "expect" params with
     | Some h -> if fnv64 impl <> h then fails := "C20:layout-changed-the-result" :: !fails
     | None -> ());
    if !fails = [] then "ok" else "FAIL:" ^ String.concat "," (List.sort_uniq compare !fails)
  end

let cmd_compile (_p : string) (arg : string) (impl : string) : string * string =
  match parse_arg arg with
  | None -> ("UNPARSABLE", "-")
  | Some (src, ups, names) ->
    let mr = match compile_and_serialize src ups with
      | Inr _ -> "OUT-OF-FUEL"
      | Inl Panic -> "PANIC"
      | Inl Err -> "ERR"
      | Inl (Ok (img, sc)) ->
        let look = if names = [] then "-" else
            String.concat "," (List.map (fun no -> match no with
                | None -> "-"
                | Some nm -> (match sc_get sc.sc_named nm with Some r -> reg_full r | None -> "-")) names) in
        Printf.sprintf "OK %d %s %s" (int_of_nat (length (fst (fst (match compile src ups with Inl (Ok (b, _)) -> ((b.b_events, ()), ()) | _ -> (([], ()), ())))))) (hex_of_bytes img) look in
    let verdict = verdict_of _p arg impl in
    (* C20, first sentence: a program of the layout stream is a generated program of the documented
       grammar; when the grammar's compiler (the model, for which acceptance and layout invariance are
       proved) accepts it, the implementation must produce that image and that name-to-register map *)
    let verdict =
      if impl <> "" && String.length _p >= 7 && String.sub _p 0 7 = "expect=" && String.length mr >= 2 && String.sub mr 0 2 = "OK" && impl <> mr then begin
        let tag = "C20:documented-program-not-compiled-as-the-grammar-says" in
        if verdict = "ok" || verdict = "-" then "FAIL:" ^ tag else verdict ^ "," ^ tag end
      else verdict in
    (mr, verdict)
