//! The scripted runtime: `RunBuilder::run` inline on one thread over the scripted transport,
//! with recording algorithms.  Every callback, send, drop and close goes into one ordered log.
//!
//! Case format (sections separated by " | "):
//!   algs      def=<inst> then registrations in order: <k>=<inst> or <k>=-      (k in 1..3)
//!   instprogs <inst>:<progid>,<progid> ...   programs each instance offers
//!   behaviour new=<cmds> rep=<cmds>          cmds joined by '+', '-' for none
//!               SP:<prog>:<field>=<hex>&...  set_program        UF:<prog>:<fields>  update_field
//!               GR:<prog>:<field>  get_field with the runtime's scope   GO:<prog>:<field> with an own compilation
//!   opts      buf=<n> stop0=<0|1> sendfail=<k>,<k>
//!   events    " ; "-separated:  E | S | D<addr>:<msg>+<msg>...
//!               RDY:<id>  CR:<sid>:<alg|->:<cwnd>:<mss>  MS:<sid>:<uidref>:<nf>:<f,f>  RAW:<hex>
//!               uidref = p<progid> (the uid the runtime gave that program) or x<hex>
use crate::rng::Rng;
use crate::script::*;
use crate::util::*;
use portus::ipc::{BackendBuilder, Ipc};
use portus::lang::Scope;
use portus::serialize::{self, create, measure, ready};
use portus::{CongAlg, Datapath, DatapathInfo, DatapathTrait, Flow, Report, RunBuilder};
use std::collections::HashMap;
use std::io::Write;
use std::sync::atomic::AtomicBool;
use std::sync::{Arc, Mutex};

/// the third additional algorithm has the longest legal name (63 bytes)
// 63 bytes, one of them part of a two-byte character (a registered name need not be ASCII)
pub const LONG63: &str = "cübic012345678901234567890123456789012345678901234567890123456";
pub const NAMES: [&str; 4] = ["dflt", "reno", "renoX", LONG63];

pub const ALPHA_SRC: &str = "(def (Report (volatile acked 0) (rtt 0)) (ctl 10) (volatile vctl 3))
        (when true (:= Report.acked (+ Report.acked Ack.bytes_acked)) (:= Report.rtt Flow.rtt_sample_us) (:= loc 5) (fallthrough))
        (when (> Micros 3000) (report) (:= Micros 0))";

pub const PROGS: [(&str, &str); 15] = [
    ("alpha", ALPHA_SRC),
    ("beta", "(def (Report (volatile loss 0) (volatile sacked 0) (volatile inflight 0)) (thresh 100))
        (when true (:= Report.loss Ack.lost_pkts_sample) (:= Report.inflight Flow.packets_in_flight) (fallthrough))
        (when (> Report.loss thresh) (report))"),
    ("gamma", "(def (Report.x 1) (k 7))
        (when (< k 9) (:= Report.x (+ Report.x 1)) (:= Cwnd 20000) (report))"),
    ("dup", "(def (Report (one 1)) (c1 1)) (when true (:= Report.one c1) (report))"),
    ("dup", "(def (Report (two 2) (three 3)) (c2 2)) (when true (:= Report.two c2) (report))"),
    ("bad", "(def (Report (x 0))) (when true (:= Report.x (+ 1)))"),
    ("delta", "(def (Report (volatile m +infinity)) (a 1) (b 2) (c 3) (Reported 4))
        (when true (:= Report.m (min Report.m Flow.rtt_sample_us)) (:= Rate (* a b)) (fallthrough))
        (when (> Micros c) (report) (:= Micros 0))"),
    // the same text as alpha under another name: two compilations, two uids, one image
    ("alpha2", ALPHA_SRC),
    // shares the control names a, b, c, ctl with delta and alpha, at other indices and volatilities
    ("epsilon", "(def (Report (volatile m2 0)) (volatile c 30) (b 20) (a 10) (ctl 9))
        (when true (:= Report.m2 (+ a b)) (fallthrough))
        (when (> Micros c) (report) (:= Micros 0))"),
    // more than ten programs in one runtime
    ("eta", "(def (Report (z1 0))) (when true (:= Report.z1 1) (report))"),
    ("theta", "(def (Report (z2 0)) (t 2) (on true) (volatile off false)) (when true (:= Report.z2 t) (report))"),
    ("iota", "(def (Report (volatile z3 0))) (when (> Micros 100) (:= Report.z3 3) (report) (:= Micros 0))"),
    ("kappa", "(def (Report (z4 0)) (kk 4) (Kk 5)) (when true (:= Report.z4 (+ kk Kk)) (report))"),
    // a program that declares control variables of its own under the names of the writable built-ins
    ("lambda", "(def (Report (volatile q 0)) (Cwnd 7) (Rate 8)) (when true (:= Report.q (+ Cwnd Rate)) (report))"),
    // compiles, but the encoder refuses it (an immediate that does not fit): offered rarely, like "bad"
    ("unenc", "(def (Report (x 0))) (when true (:= Rate 3000000000) (report))"),
];

/// names whose lookup result is part of a program's descriptor
pub const PROBE_NAMES: [&str; 36] = [
    "Report.acked", "Report.rtt", "ctl", "vctl", "loc", "Report.loss", "Report.sacked", "Report.inflight", "thresh",
    "Report.x", "k", "Report.one", "c1", "Report.two", "Report.three", "c2", "Report.m", "a", "b", "c",
    "Cwnd", "Rate", "Micros", "Ack.bytes_acked", "Reported", "Report.m2", "Report.z1", "Report.z2", "t", "Report.z3", "Report.z4", "kk", "Kk", "Report.q", "on", "off",
];
pub const EXTRA_FIELD_NAMES: [&str; 6] = ["__eventFlag", "__shouldReport", "nosuch", "Flow.was_timeout", "__x", ""];

#[derive(Clone, Debug)]
pub enum Cmd {
    SP(String, Vec<(String, u32)>),
    UF(String, Vec<(String, u32)>),
    GR(String, String),
    GO(String, String),
}

#[derive(Clone, Debug)]
pub enum Sym {
    Rdy(u32),
    Cr(u32, Option<String>, u32, u32),
    Ms(u32, UidRef, u8, Vec<u64>),
    Raw(Vec<u8>),
    /// the first k bytes (at most all but one) of another message: a message cut off by the end of its datagram
    Cut(usize, Box<Sym>),
}
#[derive(Clone, Debug)]
pub enum UidRef { P(usize), X(u32), Q(usize, u32) }

#[derive(Clone, Debug)]
pub enum REv { D(u64, Vec<Sym>), E, S }

pub struct Ctx {
    pub probe: Option<Scope>,                   // a scope with 16 report variables, to read report values back
    pub boot_done: bool,
    pub booting: bool,                          // the hidden bootstrap (teaches the harness the uid of every program)
    pub boot_step: u8,                          // hidden ready, hidden create (selects every program by name), hidden close
    pub boot_name: Option<String>,              // the name being selected by the hidden flow
    pub uid_name: HashMap<u32, String>,         // uid -> program name, learned from the hidden flow's change-program messages
    pub boot_installs: Vec<(u32, Vec<u8>)>,     // (uid, image) of the hidden ready's install messages
    pub log: Vec<String>,
    pub script: std::collections::VecDeque<REv>,
    pub sends: usize,
    pub sendfail: Vec<usize>,
    pub next_hid: usize,
    pub images: Vec<(usize, Vec<u8>)>,          // progid -> image (install message body after the 20-byte prefix)
    pub canon: HashMap<u32, usize>,             // actual uid -> progid
    pub actual: HashMap<usize, u32>,            // progid -> actual uid
    pub closed: usize,
    pub stopped: bool,
    pub recv_after_stop: usize,
    pub new_cmds: Vec<Cmd>,
    pub rep_cmds: Vec<Cmd>,
    pub cur_addr: u64,                          // address of the datagram being processed
    pub haddr: HashMap<usize, u64>,             // handler id -> address its create came from
}

pub struct RtIpc { pub ctx: Arc<Mutex<Ctx>>, pub flag: Arc<AtomicBool> }

fn encode_sym(ctx: &Ctx, s: &Sym) -> Vec<u8> {
    match s {
        Sym::Rdy(id) => serialize::serialize(&ready::Msg { id: *id }).unwrap(),
        Sym::Cr(sid, alg, cwnd, mss) => serialize::serialize(&create::Msg {
            sid: *sid, init_cwnd: *cwnd, mss: *mss, src_ip: 1, src_port: 2, dst_ip: 3, dst_port: 4, cong_alg: alg.clone() }).unwrap(),
        Sym::Ms(sid, u, nf, fs) => {
            let uid = match u { UidRef::P(k) => *ctx.actual.get(k).unwrap_or(&(0xEE00_0000 + *k as u32)), UidRef::X(x) => *x,
                UidRef::Q(k, j) => ctx.actual.get(k).unwrap_or(&(0xEE00_0000 + *k as u32)).wrapping_add(j.wrapping_mul(65536)) };
            // num_fields is written as given (it may disagree with the number of values)
            let mut b = serialize::serialize(&measure::Msg { sid: *sid, program_uid: uid, num_fields: fs.len() as u8, fields: fs.clone() }).unwrap();
            b[12] = *nf;
            b
        }
        Sym::Raw(b) => b.clone(),
        Sym::Cut(k, inner) => { let b = encode_sym(ctx, inner); let n = (*k).min(b.len().saturating_sub(1)); b[..n].to_vec() }
    }
}

impl Ipc for RtIpc {
    type Addr = u64;
    fn name() -> String { "script".into() }
    fn send(&self, msg: &[u8], to: &u64) -> portus::Result<()> {
        let mut c = self.ctx.lock().unwrap();
        if c.booting {
            if msg.len() >= 20 && msg[0] == 2 && msg[1] == 0 {
                let uid = u32::from_le_bytes([msg[8], msg[9], msg[10], msg[11]]);
                c.boot_installs.push((uid, msg[20..].to_vec()));
            } else if msg.len() >= 12 && msg[0] == 4 && msg[1] == 0 {
                let uid = u32::from_le_bytes([msg[8], msg[9], msg[10], msg[11]]);
                if let Some(n) = c.boot_name.clone() { c.uid_name.insert(uid, n); }
            }
            return Ok(());
        }
        let k = c.sends;
        c.sends += 1;
        if c.sendfail.contains(&k) {
            c.log.push(format!("SENDFAIL a{:x}", to));
            return Err(portus::Error("scripted send failure".into()));
        }
        let typ = if msg.len() >= 2 { msg[0] as u16 | ((msg[1] as u16) << 8) } else { 0xffff };
        if typ == 2 && msg.len() >= 20 {
            let uid = u32::from_le_bytes([msg[8], msg[9], msg[10], msg[11]]);
            let body = &msg[20..];
            let pid = match c.canon.get(&uid) {
                Some(p) if c.images.iter().any(|(q, im)| q == p && im.as_slice() == body) => Some(*p),
                _ => c.images.iter().find(|(_, im)| im.as_slice() == body).map(|(p, _)| *p),
            };
            match pid {
                Some(p) => { c.canon.insert(uid, p); c.actual.insert(p, uid); c.log.push(format!("INSTALL a{:x} {:x}", to, p + 1)); }
                None => c.log.push(format!("INSTALL a{:x} UNKNOWN-IMAGE", to)),
            }
        } else if typ == 4 && msg.len() >= 12 {
            let uid = u32::from_le_bytes([msg[8], msg[9], msg[10], msg[11]]);
            let mut m = msg.to_vec();
            match c.canon.get(&uid) {
                Some(p) => { let cu = (*p as u32 + 1).to_le_bytes(); m[8..12].copy_from_slice(&cu); c.log.push(format!("CHG a{:x} {}", to, hex(&m))); }
                None => c.log.push(format!("CHG a{:x} UNKNOWN-UID {}", to, hex(&m))),
            }
        } else if typ == 3 {
            c.log.push(format!("UPD a{:x} {}", to, hex(msg)));
        } else {
            c.log.push(format!("SEND a{:x} {}", to, hex(msg)));
        }
        Ok(())
    }
    fn recv(&self, msg: &mut [u8]) -> portus::Result<(usize, u64)> {
        let mut c = self.ctx.lock().unwrap();
        if c.stopped { c.recv_after_stop += 1; }
        if !c.boot_done {
            c.booting = true;
            let d = match c.boot_step {
                0 => serialize::serialize(&ready::Msg { id: 0 }).unwrap(),
                1 => serialize::serialize(&create::Msg { sid: 0xFFFF_FFF0, init_cwnd: 1, mss: 1, src_ip: 0, src_port: 0, dst_ip: 0, dst_port: 0, cong_alg: None }).unwrap(),
                _ => serialize::serialize(&measure::Msg { sid: 0xFFFF_FFF0, program_uid: 0, num_fields: 0, fields: vec![] }).unwrap(),
            };
            c.boot_step += 1;
            if c.boot_step == 3 { c.boot_done = true; }
            msg[..d.len()].copy_from_slice(&d);
            return Ok((d.len(), 0xFE));
        }
        if c.booting {
            // the bootstrap is over: name every uid.  An image identifies a program unless two
            // names share one text; the name the hidden flow selected a uid under settles that,
            // and a name registered for two texts is settled by the image.
            c.booting = false;
            let installs = std::mem::take(&mut c.boot_installs);
            for (uid, body) in installs {
                let name = c.uid_name.get(&uid).cloned();
                let cands: Vec<usize> = c.images.iter().filter(|(_, im)| *im == body).map(|(p, _)| *p).collect();
                let pick = cands.iter().find(|p| Some(PROGS[**p].0.to_string()) == name).or(cands.first()).cloned();
                if let Some(p) = pick { c.canon.insert(uid, p); c.actual.insert(p, uid); }
            }
            let named: Vec<(u32, String)> = c.uid_name.iter().map(|(u, n)| (*u, n.clone())).collect();
            for (uid, n) in named {
                if !c.canon.contains_key(&uid) {
                    // selected by name but never installed: still give it its program's number
                    let taken: Vec<usize> = c.canon.values().cloned().collect();
                    if let Some(p) = (0..PROGS.len()).find(|p| PROGS[*p].0 == n && !taken.contains(p)) { c.canon.insert(uid, p); c.actual.entry(p).or_insert(uid); }
                }
            }
        }
        match c.script.pop_front() {
            Some(REv::D(a, syms)) => {
                let mut d = vec![];
                for s in &syms { d.extend(encode_sym(&c, s)); }
                let n = d.len().min(msg.len());
                msg[..n].copy_from_slice(&d[..n]);
                c.cur_addr = a;
                Ok((n, a))
            }
            Some(REv::E) => Err(portus::Error("scripted recv failure".into())),
            Some(REv::S) | None => {
                c.stopped = true;
                self.flag.store(false, std::sync::atomic::Ordering::SeqCst);
                Err(portus::Error("scripted stop".into()))
            }
        }
    }
    fn close(&mut self) -> portus::Result<()> {
        let mut c = self.ctx.lock().unwrap();
        c.closed += 1;
        c.log.push("CLOSE-TRANSPORT".into());
        Ok(())
    }
}

#[derive(Clone)]
pub struct Alg<const K: usize> {
    pub inst: usize,
    pub progs: Vec<usize>,
    pub ctx: Arc<Mutex<Ctx>>,
    pub own: Arc<HashMap<String, Scope>>,
}

pub struct RecFlow {
    hidden: bool,
    hid: usize,
    ctx: Arc<Mutex<Ctx>>,
    dp: Datapath<RtIpc>,
    rt_scopes: HashMap<String, Scope>,
    own: Arc<HashMap<String, Scope>>,
}

fn leak(s: &str) -> &'static str { Box::leak(s.to_string().into_boxed_str()) }

fn gf_str(r: portus::Result<u64>) -> String {
    match r {
        Ok(v) => format!("GET OK {:x}", v),
        Err(portus::Error(e)) => {
            if e.contains("does not match the current scope") { "GET STALE".into() }
            else if e.contains("not a report variable") { "GET REGTYPE".into() }
            else if e.contains("in scope but was not found in the report") { "GET INVALIDREPORT".into() }
            else if e.contains("was not found in this scope") { "GET NOTFOUND".into() }
            else { format!("GET OTHER-ERROR {}", e) }
        }
    }
}

impl RecFlow {
    fn exec(&mut self, cmds: &[Cmd], rep: Option<&Report>) {
        for c in cmds {
            match c {
                Cmd::SP(p, fs) => {
                    let f: Vec<(&str, u32)> = fs.iter().map(|(n, v)| (n.as_str(), *v)).collect();
                    let r = self.dp.set_program(leak(p), if f.is_empty() { None } else { Some(&f[..]) });
                    let line = match r {
                        Ok(sc) => {
                            // the returned scope must be that program's: record its uid for the check
                            let ok = { let c = self.ctx.lock().unwrap(); c.canon.get(&sc.program_uid).map(|k| PROGS[*k].0 == p.as_str()).unwrap_or(false) };
                            self.rt_scopes.insert(p.clone(), sc.clone());
                            if ok { "CMD ok".to_string() } else { "CMD ok-BUT-WRONG-SCOPE".to_string() }
                        }
                        Err(_) => "CMD err".to_string(),
                    };
                    self.ctx.lock().unwrap().log.push(line);
                }
                Cmd::UF(p, fs) => {
                    let f: Vec<(&str, u32)> = fs.iter().map(|(n, v)| (n.as_str(), *v)).collect();
                    let line = match self.own.get(p) {
                        None => "CMD skip".to_string(),
                        Some(sc) => match self.dp.update_field(sc, &f[..]) { Ok(()) => "CMD ok".into(), Err(_) => "CMD err".into() },
                    };
                    self.ctx.lock().unwrap().log.push(line);
                }
                Cmd::GR(p, field) => {
                    let line = match rep {
                        None => "CMD skip".to_string(),
                        Some(r) => match self.rt_scopes.get(p) { None => "GET NOSCOPE".into(), Some(sc) => gf_str(r.get_field(field, &sc.clone())) },
                    };
                    self.ctx.lock().unwrap().log.push(line);
                }
                Cmd::GO(p, field) => {
                    let line = match rep {
                        None => "CMD skip".to_string(),
                        Some(r) => match self.own.get(p) {
                            None => "GET NOSCOPE".into(),
                            Some(sc) => {
                                // also through a compilation made just now, right after a failed one (a source that
                                // is not UTF-8, one that does not parse): it is a different compilation all the same
                                let first = gf_str(r.get_field(field, sc));
                                let _ = catch(|| portus::lang::compile(&[0x28, 0xff, 0xfe, 0x29], &[]).is_ok());
                                let _ = catch(|| portus::lang::compile(b"(def", &[]).is_ok());
                                // ... made on a thread of its own (a compilation is a compilation wherever it runs)
                                let fresh = PROGS.iter().find(|(n, _)| *n == p.as_str()).and_then(|(_, src)| {
                                    let src: &'static str = src;
                                    std::thread::spawn(move || catch(|| portus::lang::compile(src.as_bytes(), &[]).ok()).flatten()).join().ok().flatten() });
                                match fresh {
                                    Some((_, sc2)) => { let second = gf_str(r.get_field(field, &sc2)); if second == first { first } else { format!("{} BUT-FRESH-COMPILATION-GIVES {}", first, second.replace(' ', "-")) } }
                                    None => first,
                                }
                            }
                        },
                    };
                    self.ctx.lock().unwrap().log.push(line);
                }
            }
        }
    }
}

impl Flow for RecFlow {
    fn on_report(&mut self, sock_id: u32, m: Report) {
        if self.hidden { return; }
        let cmds = {
            let mut c = self.ctx.lock().unwrap();
            let uid = match c.canon.get(&m.program_uid) { Some(p) => format!("{:x}", p + 1), None => {
                // a uid that is a known one plus a multiple of 65536 is printed as the canonical one plus that multiple
                let mut out = format!("{:x}", m.program_uid);
                for j in 1..4u32 { if let Some(p) = c.canon.get(&m.program_uid.wrapping_sub(j * 65536)) { out = format!("{:x}", (*p as u32 + 1).wrapping_add(j * 65536)); break; } }
                out } };
            // the values are private: read them back through every report slot of a probing scope
            let mut vals: Vec<u64> = vec![];
            if let Some(mut ps) = c.probe.clone() {
                ps.program_uid = m.program_uid;
                for i in 0..16 { match m.get_field(&format!("Report.f{}", i), &ps) { Ok(v) => vals.push(v), Err(_) => break } }
            }
            c.log.push(format!("REP h{} {:x} {} {}", self.hid, sock_id, uid, hexlist(&vals)));
            c.rep_cmds.clone()
        };
        self.exec(&cmds, Some(&m));
    }
    fn close(&mut self) { if self.hidden { return; } self.ctx.lock().unwrap().log.push(format!("CLOSE h{}", self.hid)); }
}
impl Drop for RecFlow {
    fn drop(&mut self) { if self.hidden { return; } self.ctx.lock().unwrap().log.push(format!("DROP h{}", self.hid)); }
}

impl<const K: usize> CongAlg<RtIpc> for Alg<K> {
    type Flow = RecFlow;
    fn name() -> &'static str { NAMES[K] }
    fn datapath_programs(&self) -> HashMap<&'static str, String> {
        self.progs.iter().map(|p| (PROGS[*p].0, PROGS[*p].1.to_string())).collect()
    }
    fn new_flow(&self, control: Datapath<RtIpc>, info: DatapathInfo) -> RecFlow {
        if self.ctx.lock().unwrap().booting {
            // the hidden flow: select every program by name so that its uid shows in a change-program message
            let mut control = control;
            let mut seen: Vec<&str> = vec![];
            for (name, _) in PROGS.iter() {
                if seen.contains(name) { continue; }
                seen.push(name);
                self.ctx.lock().unwrap().boot_name = Some(name.to_string());
                let _ = catch(|| control.set_program(name, None).map(|_| ()));
            }
            self.ctx.lock().unwrap().boot_name = None;
            return RecFlow { hidden: true, hid: usize::MAX, ctx: self.ctx.clone(), dp: control, rt_scopes: HashMap::new(), own: self.own.clone() };
        }
        let (hid, cmds) = {
            let mut c = self.ctx.lock().unwrap();
            let hid = c.next_hid;
            let a = c.cur_addr; c.haddr.insert(hid, a);
            c.next_hid += 1;
            c.log.push(format!("NEW h{} i{} {:x} {:x} {:x} {:x} {:x} {:x} {:x} hs{:x}", hid, self.inst, info.sock_id, info.init_cwnd, info.mss,
                info.src_ip, info.src_port, info.dst_ip, info.dst_port, control.get_sock_id()));
            (hid, c.new_cmds.clone())
        };
        let mut f = RecFlow { hidden: false, hid, ctx: self.ctx.clone(), dp: control, rt_scopes: HashMap::new(), own: self.own.clone() };
        f.exec(&cmds, None);
        f
    }
}

// ------------------------------------------------------------------ case parsing

pub struct Case {
    pub def_inst: usize,
    pub regs: Vec<(usize, Option<usize>)>,       // registration order
    pub instprogs: HashMap<usize, Vec<usize>>,
    pub new_cmds: Vec<Cmd>,
    pub rep_cmds: Vec<Cmd>,
    pub buf: usize,
    pub stop0: bool,
    pub sendfail: Vec<usize>,
    pub events: Vec<REv>,
}

fn parse_fields(s: &str) -> Option<Vec<(String, u32)>> {
    if s.is_empty() || s == "-" { return Some(vec![]); }
    s.split('&').map(|kv| { let (k, v) = kv.split_once('=')?; Some((k.to_string(), u32::from_str_radix(v, 16).ok()?)) }).collect()
}
fn parse_cmds(s: &str) -> Option<Vec<Cmd>> {
    if s == "-" || s.is_empty() { return Some(vec![]); }
    s.split('+').map(|c| {
        let p: Vec<&str> = c.splitn(3, ':').collect();
        match p.as_slice() {
            ["SP", prog, fs] => Some(Cmd::SP(prog.to_string(), parse_fields(fs)?)),
            ["UF", prog, fs] => Some(Cmd::UF(prog.to_string(), parse_fields(fs)?)),
            ["GR", prog, f] => Some(Cmd::GR(prog.to_string(), f.to_string())),
            ["GO", prog, f] => Some(Cmd::GO(prog.to_string(), f.to_string())),
            _ => None,
        }
    }).collect()
}
fn parse_sym(s: &str) -> Option<Sym> {
    if let Some(rest) = s.strip_prefix("CUT:") { let (k, inner) = rest.split_once(':')?; return Some(Sym::Cut(k.parse().ok()?, Box::new(parse_sym(inner)?))); }
    let p: Vec<&str> = s.split(':').collect();
    match p.as_slice() {
        ["RDY", id] => Some(Sym::Rdy(u32::from_str_radix(id, 16).ok()?)),
        ["CR", sid, alg, cwnd, mss] => Some(Sym::Cr(u32::from_str_radix(sid, 16).ok()?, if *alg == "-" { None } else { Some(unescape_name(alg)) },
            u32::from_str_radix(cwnd, 16).ok()?, u32::from_str_radix(mss, 16).ok()?)),
        ["MS", sid, u, nf, fs] => {
            let uref = if let Some(k) = u.strip_prefix('p') { UidRef::P(k.parse().ok()?) } else if let Some(kj) = u.strip_prefix('q') { let (k, j) = kj.split_once('.')?; UidRef::Q(k.parse().ok()?, j.parse().ok()?) } else { UidRef::X(u32::from_str_radix(u.strip_prefix('x')?, 16).ok()?) };
            let fields = if *fs == "-" { vec![] } else { fs.split(',').map(|x| u64::from_str_radix(x, 16).ok()).collect::<Option<Vec<_>>>()? };
            Some(Sym::Ms(u32::from_str_radix(sid, 16).ok()?, uref, u8::from_str_radix(nf, 16).ok()?, fields))
        }
        ["RAW", h] => Some(Sym::Raw(unhex(h))),
        _ => None,
    }
}
pub fn parse_case(arg: &str) -> Option<Case> {
    let secs: Vec<&str> = arg.split(" | ").collect();
    if secs.len() != 5 && secs.len() != 6 { return None; }
    let mut def_inst = None;
    let mut regs = vec![];
    for t in secs[0].split_whitespace() {
        let (k, v) = t.split_once('=')?;
        if k == "def" { def_inst = Some(v.parse().ok()?); }
        else { let kk: usize = k.parse().ok()?; if !(1..=3).contains(&kk) { return None; } regs.push((kk, if v == "-" { None } else { Some(v.parse().ok()?) })); }
    }
    if regs.len() > 3 { return None; }
    let mut instprogs = HashMap::new();
    for t in secs[1].split_whitespace() {
        let (i, ps) = t.split_once(':')?;
        let v: Vec<usize> = if ps.is_empty() { vec![] } else { ps.split(',').map(|x| x.parse().ok()).collect::<Option<Vec<_>>>()? };
        if v.iter().any(|p| *p >= PROGS.len()) { return None; }
        instprogs.insert(i.parse().ok()?, v);
    }
    let mut new_cmds = vec![]; let mut rep_cmds = vec![];
    for t in secs[2].split_whitespace() {
        let (k, v) = t.split_once('=')?;
        match k { "new" => new_cmds = parse_cmds(v)?, "rep" => rep_cmds = parse_cmds(v)?, _ => return None }
    }
    let mut buf = 1024; let mut stop0 = false; let mut sendfail = vec![];
    for t in secs[3].split_whitespace() {
        let (k, v) = t.split_once('=')?;
        match k {
            "buf" => buf = v.parse().ok()?,
            "stop0" => stop0 = v == "1",
            "sendfail" => sendfail = if v == "-" { vec![] } else { v.split(',').map(|x| x.parse().ok()).collect::<Option<Vec<_>>>()? },
            _ => return None,
        }
    }
    let mut events = vec![];
    if secs[4].trim() != "-" {
        for it in secs[4].split(" ; ") {
            let it = it.trim();
            if it == "E" { events.push(REv::E); }
            else if it == "S" { events.push(REv::S); }
            else if let Some(rest) = it.strip_prefix('D') {
                let (a, ms) = rest.split_once(':')?;
                let syms: Vec<Sym> = if ms.is_empty() { vec![] } else { ms.split('+').map(parse_sym).collect::<Option<Vec<_>>>()? };
                events.push(REv::D(u64::from_str_radix(a, 16).ok()?, syms));
            } else if it.is_empty() { continue; } else { return None; }
        }
    }
    Some(Case { def_inst: def_inst?, regs, instprogs, new_cmds, rep_cmds, buf, stop0, sendfail, events })
}

// ------------------------------------------------------------------ running a case

fn mk<const K: usize>(inst: usize, case: &Case, ctx: &Arc<Mutex<Ctx>>, own: &Arc<HashMap<String, Scope>>) -> Alg<K> {
    Alg { inst, progs: case.instprogs.get(&inst).cloned().unwrap_or_default(), ctx: ctx.clone(), own: own.clone() }
}

macro_rules! add_alg {
    ($rb:expr, $item:expr, $next:ident, $rest:expr, $case:expr, $ctx:expr, $own:expr) => {
        match $item.0 {
            1 => $next!($rb.additional_alg::<Alg<1>, _>($item.1.map(|i| mk::<1>(i, $case, $ctx, $own))), $rest, $case, $ctx, $own),
            2 => $next!($rb.additional_alg::<Alg<2>, _>($item.1.map(|i| mk::<2>(i, $case, $ctx, $own))), $rest, $case, $ctx, $own),
            _ => $next!($rb.additional_alg::<Alg<3>, _>($item.1.map(|i| mk::<3>(i, $case, $ctx, $own))), $rest, $case, $ctx, $own),
        }
    };
}
macro_rules! lvl3 { ($rb:expr, $rest:expr, $case:expr, $ctx:expr, $own:expr) => { $rb.run() }; }
macro_rules! lvl2 { ($rb:expr, $rest:expr, $case:expr, $ctx:expr, $own:expr) => {
    match $rest.split_first() { None => $rb.run(), Some((it, tail)) => add_alg!($rb, it, lvl3, tail, $case, $ctx, $own) } }; }
macro_rules! lvl1 { ($rb:expr, $rest:expr, $case:expr, $ctx:expr, $own:expr) => {
    match $rest.split_first() { None => $rb.run(), Some((it, tail)) => add_alg!($rb, it, lvl2, tail, $case, $ctx, $own) } }; }
macro_rules! lvl0 { ($rb:expr, $rest:expr, $case:expr, $ctx:expr, $own:expr) => {
    match $rest.split_first() { None => $rb.run(), Some((it, tail)) => add_alg!($rb, it, lvl1, tail, $case, $ctx, $own) } }; }

/// independent compilation of every table program: image bytes (for uid canonicalisation) and scope
pub fn table_images() -> (Vec<(usize, Vec<u8>)>, HashMap<String, Scope>) {
    let mut images = vec![];
    let mut own = HashMap::new();
    for (i, (name, src)) in PROGS.iter().enumerate() {
        // failed compilations in between (not UTF-8; not a program) must not disturb the uids of the others
        let _ = catch(|| portus::lang::compile(&[0x28, 0xff, 0xfe, 0x29], &[]).is_ok());
        let _ = catch(|| portus::lang::compile(b"(def", &[]).is_ok());
        if let Some(Ok((bin, sc))) = catch(|| portus::lang::compile(src.as_bytes(), &[])) {
            // for duplicate names keep the first (dup-named programs are not used with own scopes); a program
            // whose image cannot be encoded has no own scope either (as in the driver's table)
            if let Ok(b) = bin.serialize() { images.push((i, b)); own.entry(name.to_string()).or_insert(sc); }
        }
    }
    (images, own)
}

pub fn canon_log(log: Vec<String>) -> Vec<String> {
    // sort maximal runs of DROP lines and of INSTALL lines (hash-map iteration order);
    // an INSTALL run cut short by a failed send keeps only its length
    let mut out: Vec<String> = vec![];
    let mut i = 0;
    while i < log.len() {
        let kind = if log[i].starts_with("DROP ") { "DROP " } else if log[i].starts_with("INSTALL ") { "INSTALL " } else { "" };
        if kind.is_empty() { out.push(log[i].clone()); i += 1; continue; }
        let mut j = i;
        // an INSTALL run is to one address
        let addr = log[i].split(' ').nth(1).unwrap_or("").to_string();
        while j < log.len() && log[j].starts_with(kind) && (kind == "DROP " || log[j].split(' ').nth(1).unwrap_or("") == addr) { j += 1; }
        let mut run: Vec<String> = log[i..j].to_vec();
        if kind == "INSTALL " && j < log.len() && log[j].starts_with("SENDFAIL") {
            run = run.iter().map(|_| format!("INSTALL {} ?", addr)).collect();
        }
        run.sort_by_key(|l| { let t = l.rsplit(' ').next().unwrap_or("").trim_start_matches('h').to_string(); (t.len(), t) });
        out.extend(run);
        i = j;
    }
    out
}

/// Every case runs its runtime on a thread of its own, as an application that spawns its CCP does
/// (the compilations the harness makes for itself happen on the calling thread).
pub fn run_case(case: &Case) -> String {
    let r = run_case_raw(case);
    r.split('\u{1}').next().unwrap_or("").to_string()
}

pub fn run_case_raw(case: &Case) -> String {
    // (the harness's own compilations on yet another fresh thread: two threads that have each compiled a
    // few programs are the situation in which per-thread uid numbering would collide)
    let pre = std::thread::spawn(table_images).join().unwrap_or_else(|_| (vec![], HashMap::new()));
    std::thread::scope(|s| s.spawn(move || run_case_on_this_thread(case, pre)).join()).unwrap_or_else(|_| "PANIC => PANIC".to_string())
}

fn run_case_on_this_thread(case: &Case, pre: (Vec<(usize, Vec<u8>)>, HashMap<String, Scope>)) -> String {
    let (images, own) = pre;
    let own = Arc::new(own);
    let probe_src = format!("(def (Report {})) (when true (report))", (0..16).map(|i| format!("(f{} 0)", i)).collect::<Vec<_>>().join(" "));
    let probe = catch(|| portus::lang::compile(probe_src.as_bytes(), &[])).and_then(|r| r.ok()).map(|(_, sc)| sc);
    let ctx = Arc::new(Mutex::new(Ctx {
        probe, booting: false, boot_done: false, boot_step: 0, boot_name: None, uid_name: HashMap::new(), boot_installs: vec![],
        log: vec![], script: case.events.clone().into(), sends: 0, sendfail: case.sendfail.clone(), next_hid: 0,
        images, canon: HashMap::new(), actual: HashMap::new(), closed: 0, stopped: false, recv_after_stop: 0,
        new_cmds: case.new_cmds.clone(), rep_cmds: case.rep_cmds.clone(), cur_addr: 0, haddr: HashMap::new(),
    }));
    let flag = Arc::new(AtomicBool::new(!case.stop0));
    let ipc = RtIpc { ctx: ctx.clone(), flag: flag.clone() };
    let res = catch(|| {
        let rb = RunBuilder::new(BackendBuilder { sock: ipc }).with_stop_handle(flag.clone()).default_alg(mk::<0>(case.def_inst, case, &ctx, &own));
        let regs = &case.regs[..];
        lvl0!(rb, regs, case, &ctx, &own)
    });
    let c = ctx.lock().unwrap();
    let log = canon_log(c.log.clone());
    let r = match res { None => "PANIC", Some(Ok(())) => "OK", Some(Err(_)) => "ERR" };
    let extra = format!("strong={} recv_after_stop={}", Arc::strong_count(&flag), c.recv_after_stop);
    let out = format!("{} => {} {}", if log.is_empty() { "-".to_string() } else { log.join(" ; ") }, r, extra);
    // the handler addresses travel with the result to the calling thread
    format!("{}\u{1}{}", out, c.haddr.iter().map(|(k, v)| format!("{}={:x}", k, v)).collect::<Vec<_>>().join(","))
}

/// What one datapath sees of a run: the callbacks of the handlers its creates made (renumbered in
/// order of creation), the commands those callbacks issued, and everything sent to its address.
fn view_of(result: &str, haddr: &HashMap<usize, u64>, a: u64) -> Vec<String> {
    let body = result.split(" => ").next().unwrap_or("");
    let mut rank: HashMap<usize, usize> = HashMap::new();
    let mut out = vec![];
    let mut cur: Option<usize> = None;      // the handler whose callback is running
    let dest = format!("a{:x}", a);
    for it in body.split(" ; ") {
        let t: Vec<&str> = it.split(' ').collect();
        let hid = |s: &str| s.strip_prefix('h').and_then(|x| x.parse::<usize>().ok());
        match t.first().copied() {
            Some("NEW") | Some("REP") | Some("CLOSE") | Some("DROP") => {
                let h = t.get(1).and_then(|s| hid(s));
                cur = h;
                if let Some(h) = h { if haddr.get(&h) == Some(&a) {
                    let n = rank.len(); let k = *rank.entry(h).or_insert(n);
                    if t[0] != "DROP" { out.push(format!("{} H{} {}", t[0], k, t[2..].join(" "))); }
                } }
            }
            Some("CMD") | Some("GET") => { if let Some(h) = cur { if haddr.get(&h) == Some(&a) { out.push(it.to_string()); } } }
            Some("CHG") | Some("UPD") | Some("SEND") | Some("SENDFAIL") => { if t.get(1) == Some(&dest.as_str()) { out.push(it.to_string()); } }
            Some("INSTALL") => { if t.get(1) == Some(&dest.as_str()) { out.push(it.to_string()); } }
            _ => {}
        }
    }
    // installs arrive in hash-map order, and two rounds of them may follow each other directly:
    // a maximal run becomes one item, "INSTALLS <how many> <which programs>"
    let mut res = vec![]; let mut i = 0;
    while i < out.len() {
        if out[i].starts_with("INSTALL") {
            let mut j = i; while j < out.len() && out[j].starts_with("INSTALL") { j += 1; }
            let mut ids: Vec<String> = out[i..j].iter().map(|l| l.split(' ').nth(2).unwrap_or("").to_string()).collect();
            let n = ids.len(); ids.sort(); ids.dedup();
            res.push(format!("INSTALLS {} {}", n, ids.join(",")));
            i = j;
        } else { res.push(out[i].clone()); i += 1; }
    }
    res
}

/// v1 (a run that was cut short) is what v2 (the run alone) begins with; a last round of installs may be shorter
fn is_prefix_view(v1: &[String], v2: &[String]) -> bool {
    if v1.len() > v2.len() { return false; }
    for (k, (x, y)) in v1.iter().zip(v2.iter()).enumerate() {
        if x == y { continue; }
        if k + 1 == v1.len() && x.starts_with("INSTALLS ") && y.starts_with("INSTALLS ") {
            let (tx, ty): (Vec<&str>, Vec<&str>) = (x.split(' ').collect(), y.split(' ').collect());
            if tx.len() == 3 && ty.len() == 3 && tx[2] == ty[2] && tx[1].parse::<usize>().unwrap_or(usize::MAX) <= ty[1].parse::<usize>().unwrap_or(0) { continue; }
        }
        return false;
    }
    true
}

/// C09, on the implementation alone: a history, and the same history with only the datagrams of one
/// address; what that datapath sees of the two runs must be the same.
pub fn eval_isolate(arg: &str) -> String {
    let (full, a) = match arg.split_once(" @@ ") { Some((f, a)) => (f, a), None => return "UNPARSABLE".into() };
    let a = match u64::from_str_radix(a.trim(), 16) { Ok(a) => a, Err(_) => return "UNPARSABLE".into() };
    let secs: Vec<&str> = full.split(" | ").collect();
    if secs.len() < 5 { return "UNPARSABLE".into(); }
    let only: Vec<&str> = secs[4].split(" ; ").filter(|e| { let e = e.trim(); !e.starts_with('D') || e[1..].split(':').next().and_then(|x| u64::from_str_radix(x, 16).ok()) == Some(a) }).collect();
    let alone = format!("{} | {}", secs[..4].join(" | "), if only.is_empty() { "-".to_string() } else { only.join(" ; ") });
    let run = |s: &str| -> Option<(String, HashMap<usize, u64>)> {
        let c = parse_case(s)?; let r = run_case_raw(&c);
        let (res, hs) = r.split_once('\u{1}').map(|(x, y)| (x.to_string(), y.to_string())).unwrap_or((r.clone(), String::new()));
        let m = hs.split(',').filter_map(|kv| kv.split_once('=')).filter_map(|(k, v)| Some((k.parse().ok()?, u64::from_str_radix(v, 16).ok()?))).collect();
        Some((res, m)) };
    match (run(full), run(&alone)) {
        (Some((r1, h1)), Some((r2, h2))) => {
            if r1.contains("PANIC") || r2.contains("PANIC") { return "PANIC".into(); }
            let (v1, v2) = (view_of(&r1, &h1, a), view_of(&r2, &h2, a));
            // a run that another datapath's undecodable datagram or a receive failure brought to an end
            // (result ERR) has served this datapath up to that point: a prefix of what it sees alone
            let aborted = r1.contains("=> ERR");
            if v1 == v2 || (aborted && is_prefix_view(&v1, &v2)) { "ISOLATED".into() } else {
                let k = v1.iter().zip(v2.iter()).take_while(|(x, y)| x == y).count();
                if std::env::var("ISOLATE_DEBUG").is_ok() { eprintln!("FULL {}\nWITH {:?}\nALONE-RUN {}\nALONE {:?}", r1, v1, r2, v2); }
                format!("INTERFERENCE at {} with-the-others: {} alone: {}", k, v1.get(k).map(|s| s.replace(' ', "_")).unwrap_or("(nothing)".into()), v2.get(k).map(|s| s.replace(' ', "_")).unwrap_or("(nothing)".into()))
            }
        }
        _ => "UNPARSABLE".into(),
    }
}

pub fn run_isolate_stream(tier: &str, seed: u64, out: &mut dyn Write) {
    let n = if tier == "thorough" { 30_000 } else { 1_500 };
    let mut r = Rng::new(seed ^ 0x0909);
    let desc = prog_descriptors();
    let mut done = 0;
    while done < n {
        let adv = r.chance(1, 2);
        // no send failures: which send fails is counted over all datapaths
        let base = gen_case(&mut r, adv, false);
        let secs: Vec<&str> = base.split(" | ").collect();
        let addrs: Vec<u64> = secs[4].split(" ; ").filter_map(|e| { let e = e.trim(); if e.starts_with('D') && e.contains(":CR:") { e[1..].split(':').next().and_then(|x| u64::from_str_radix(x, 16).ok()) } else { None } }).collect();
        if addrs.is_empty() { continue; }
        let a = *r.pick(&addrs);
        let arg = format!("{} @@ {:x}", base, a);
        let res = eval_isolate(&arg);
        writeln!(out, "isolate\t{} @@ {:x}\t{}", with_descriptors(&base, &desc), a, res).unwrap();
        done += 1;
    }
}

pub fn eval(arg: &str) -> String {
    match parse_case(arg) { Some(c) => run_case(&c), None => "UNPARSABLE".into() }
}
/// the argument with a fresh program-descriptor section (what the model needs to know about the
/// table programs is always taken from the implementation as built now)
pub fn with_descriptors(arg: &str, desc: &str) -> String {
    let secs: Vec<&str> = arg.split(" | ").collect();
    if secs.len() < 5 { return arg.to_string(); }
    format!("{} | {}", secs[..5].join(" | "), desc)
}

/// descriptors of the table programs for the model: name, and the lookup result of every probe name
pub fn reg_str(r: &portus::lang::Reg) -> String {
    use portus::lang::Reg::*;
    match r {
        Control(i, _, v) => format!("C{}{}", i, if *v { "v" } else { "" }),
        Report(i, _, v) => format!("R{}{}", i, if *v { "v" } else { "" }),
        Implicit(i, _) => format!("I{}", i),
        Local(i, _) => format!("L{}", i),
        Primitive(i, _) => format!("P{}", i),
        Tmp(i, _) => format!("T{}", i),
        ImmNum(n) => format!("N{}", n),
        ImmBool(b) => format!("B{}", *b as u8),
        None => "X".into(),
    }
}
pub fn prog_descriptors() -> String {
    // progid:name:ok:<source text in hex>:entry,entry   entry = name=reg
    let mut out = vec![];
    for (i, (name, src)) in PROGS.iter().enumerate() {
        match catch(|| portus::lang::compile_and_serialize(src.as_bytes(), &[])) {
            Some(Ok((_, sc))) => {
                let ents: Vec<String> = PROBE_NAMES.iter().chain(EXTRA_FIELD_NAMES.iter()).filter_map(|n| sc.get(n).map(|r| format!("{}={}", n, reg_str(r)))).collect();
                out.push(format!("{}:{}:1:{}:{}", i, name, hex(src.as_bytes()), ents.join(",")));
            }
            _ => out.push(format!("{}:{}:0:{}:", i, name, hex(src.as_bytes()))),
        }
    }
    out.join(" ")
}

/// Distinct datapath addresses that a table keyed by a digest of the address would confuse:
/// two that collide in the low 32 bits of the standard hasher, two that agree modulo 2^32,
/// two that agree modulo 2^8.  (The property is about addresses, not about their digests.)
pub fn colliding_addrs() -> &'static [u64; 6] {
    use std::hash::{Hash, Hasher};
    static CELL: std::sync::OnceLock<[u64; 6]> = std::sync::OnceLock::new();
    CELL.get_or_init(|| {
        let mut seen: HashMap<u32, u64> = HashMap::new();
        let mut pair = (1u64 << 40, (1u64 << 40) + 1);
        for a in 0x1_0000u64..0x40_0000 {
            let mut h = std::collections::hash_map::DefaultHasher::new();
            a.hash(&mut h);
            let d = h.finish() as u32;
            if let Some(b) = seen.insert(d, a) { pair = (b, a); break; }
        }
        [pair.0, pair.1, 5, 5 + (1u64 << 32), 0x107, 0x207]
    })
}

/// `~xx` in an algorithm name of a case line stands for the byte xx (white space and other
/// characters the line format cannot carry)
pub fn unescape_name(s: &str) -> String {
    let b = s.as_bytes(); let mut out = Vec::new(); let mut i = 0;
    while i < b.len() {
        if b[i] == b'~' && i + 2 < b.len() + 0 && i + 2 <= b.len() - 1 + 0 {
            if let Ok(v) = u8::from_str_radix(&s[i + 1..i + 3], 16) { out.push(v); i += 3; continue; }
        }
        out.push(b[i]); i += 1;
    }
    String::from_utf8_lossy(&out).into_owned()
}

// ------------------------------------------------------------------ generators

fn gen_fields(r: &mut Rng, n: usize) -> String {
    if n == 0 { return "-".into(); }
    (0..n).map(|_| {
        let name = if r.chance(3, 4) { *r.pick(&PROBE_NAMES) } else { *r.pick(&EXTRA_FIELD_NAMES) };
        format!("{}={:x}", name, r.u32b())
    }).collect::<Vec<_>>().join("&")
}
fn gen_ctl_fields(r: &mut Rng, prog: &str, n: usize) -> String {
    // mostly controllable names of that program
    let pool: &[&str] = match prog { "alpha" | "alpha2" => &["ctl", "vctl", "Cwnd", "Rate"], "beta" => &["thresh", "Cwnd"], "gamma" => &["k", "Rate"],
        "delta" => &["a", "b", "c", "Cwnd", "Rate"], "epsilon" => &["a", "b", "c", "ctl", "Rate"], "theta" => &["t", "on", "off", "Cwnd"], "kappa" => &["kk", "Kk", "Rate"], "lambda" => &["Cwnd", "Rate"], _ => &["c1", "c2", "Cwnd"] };
    if n == 0 { return "-".into(); }
    (0..n).map(|_| {
        let base = if r.chance(9, 10) { *r.pick(pool) } else { *r.pick(&PROBE_NAMES) };
        // now and then a name the program does not declare that merely looks like one it does
        let name = match r.below(40) { 0 => format!("Control.{}", base), 1 => format!("Report.{}", base), 2 => format!("{}.", base), 3 => base.to_uppercase(), 4 => format!("Flow.{}", base), _ => base.to_string() };
        // values: mostly arbitrary, often small (0, 1, 2, 3)
        let v = if r.chance(1, 4) { r.below(4) as u32 } else { r.u32b() };
        format!("{}={:x}", name, v) }).collect::<Vec<_>>().join("&")
}
fn gen_cmds(r: &mut Rng, report: bool) -> String {
    let n = r.below(4);
    if n == 0 { return "-".into(); }
    let progs = ["alpha", "beta", "gamma", "dup", "delta", "alpha2", "epsilon", "eta", "theta", "iota", "kappa", "lambda", "nosuchprog", "bad", "unenc"];
    (0..n).map(|_| {
        let p = if r.chance(5, 6) { *r.pick(&progs[..12]) } else { *r.pick(&progs) };
        let k = if report { r.below(6) } else { r.below(3) };
        let nf = r.below(4) as usize;
        // now and then an update of more names than the message's 8-bit count can hold (and of
        // just as many as it can): every name is the window or the rate, so nothing but the count decides
        if k == 2 && r.chance(1, 25) {
            let many = 253 + r.below(50) as usize;
            let fs = (0..many).map(|i| format!("{}={:x}", if (i + many) % 3 == 0 { "Rate" } else { "Cwnd" }, r.below(1000))).collect::<Vec<_>>().join("&");
            return format!("UF:{}:{}", if p == "dup" { "alpha" } else { p }, fs);
        }
        match k {
            0 | 1 => format!("SP:{}:{}", p, if r.chance(2, 3) { gen_ctl_fields(r, p, nf) } else { gen_fields(r, nf) }),
            2 => format!("UF:{}:{}", if p == "dup" { "alpha" } else { p }, if r.chance(2, 3) { gen_ctl_fields(r, p, nf) } else { gen_fields(r, nf) }),
            3 | 4 => format!("GR:{}:{}", p, if r.chance(3, 4) { *r.pick(&PROBE_NAMES) } else { *r.pick(&EXTRA_FIELD_NAMES) }),
            _ => format!("GO:{}:{}", if p == "dup" { "alpha" } else { p }, *r.pick(&PROBE_NAMES)),
        }
    }).collect::<Vec<_>>().join("+")
}

/// a measurement's uid reference: mostly the program itself, now and then the same uid plus a multiple of 65536
fn uidref_of(r: &mut Rng, p: usize) -> String { if r.chance(1, 30) { format!("q{}.{}", p, 1 + r.below(3)) } else { format!("p{}", p) } }

fn report_fields_of(p: usize) -> &'static [&'static str] {
    match p { 0 | 7 => &["Report.acked", "Report.rtt"], 1 => &["Report.loss", "Report.sacked", "Report.inflight"], 2 => &["Report.x"],
        3 => &["Report.one"], 4 => &["Report.two", "Report.three"], 8 => &["Report.m2"], 9 => &["Report.z1"], 10 => &["Report.z2"], 11 => &["Report.z3"], 12 => &["Report.z4"], 13 => &["Report.q"], _ => &["Report.m"] }
}

/// Structured generation: tracks which (address, flow id) pairs are live so that most
/// measurements reach a handler, most handle commands name programs of the compiled set, and
/// most field lookups use the scope of the program the report carries.
pub fn gen_case(r: &mut Rng, adversarial: bool, faults: bool) -> String {
    // algorithms
    let nreg = r.below(4) as usize;
    let mut next_inst = 1;
    let mut algs = vec!["def=0".to_string()];
    let mut insts = vec![0usize];
    for _ in 0..nreg {
        let k = r.range(1, 3);
        if r.chance(1, 5) { algs.push(format!("{}=-", k)); }
        else { algs.push(format!("{}={}", k, next_inst)); insts.push(next_inst); next_inst += 1; }
    }
    // programs per instance (program 5 = uncompilable, rare)
    let mut ip = vec![];
    let mut offered: Vec<usize> = vec![];
    let mut has_unenc = false;
    for i in &insts {
        let mut ps: Vec<usize> = vec![];
        for p in [0usize, 1, 2, 3, 4, 6] { if r.chance(1, 2) { ps.push(p); } }
        if r.chance(1, 3) { ps.push(7); }
        if r.chance(1, 2) { ps.push(8); }
        // now and then (nearly) the whole table: more than ten programs in one runtime
        if r.chance(1, 6) { for p in [0usize, 1, 2, 3, 6, 7, 8, 9, 10, 11, 12, 13] { if !ps.contains(&p) && !(p == 3 && ps.contains(&4)) { ps.push(p); } } }
        else { for p in [9usize, 10, 11, 12, 13] { if r.chance(1, 5) { ps.push(p); } } }
        if ps.contains(&3) && ps.contains(&4) { ps.retain(|x| *x != 4); }   // one map cannot hold a name twice
        if *i == 0 && ps.is_empty() { ps.push(0); }
        if r.chance(1, 80) { ps.push(5); }
        if r.chance(1, 80) { ps.push(14); has_unenc = true; }
        offered.extend(ps.iter().cloned());
        ip.push(format!("{}:{}", i, ps.iter().map(|p| p.to_string()).collect::<Vec<_>>().join(",")));
    }
    offered.retain(|p| *p != 5 && *p != 14);
    if offered.is_empty() { offered.push(0); }
    // behaviour: usually select an offered program at creation and read its fields on reports
    let main = *r.pick(&offered);
    let mname = PROGS[main].0;
    let mut newc: Vec<String> = vec![];
    let mut repc: Vec<String> = vec![];
    if r.chance(5, 6) { let nf = r.below(3) as usize; newc.push(format!("SP:{}:{}", mname, gen_ctl_fields(r, mname, nf))); }
    if r.chance(1, 3) { let g = gen_cmds(r, false); if g != "-" { newc.push(g); } }
    // a program that compiles but whose install message cannot be encoded: a runtime that starts at all must not select it
    if has_unenc { newc.push("SP:unenc:-".to_string()); }
    for _ in 0..r.below(3) {
        let f = if r.chance(4, 5) { *r.pick(report_fields_of(main)) } else { *r.pick(&PROBE_NAMES) };
        repc.push(format!("GR:{}:{}", mname, f));
    }
    if r.chance(1, 3) { let nf = r.range(1, 3) as usize; repc.push(format!("UF:{}:{}", if mname == "dup" { "alpha" } else { mname }, gen_ctl_fields(r, mname, nf))); }
    if r.chance(1, 4) { let o = *r.pick(&offered); let nf = r.below(3) as usize; repc.push(format!("SP:{}:{}", PROGS[o].0, gen_ctl_fields(r, PROGS[o].0, nf))); }
    if r.chance(1, 4) { let g = gen_cmds(r, true); if g != "-" { repc.push(g); } }
    // the same control name under two programs that place it differently: update, switch, update
    if offered.contains(&6) && offered.contains(&8) && r.chance(1, 2) {
        let n = *r.pick(&["a", "b", "c"]);
        repc.push(format!("UF:delta:{}={:x}", n, r.u32b()));
        repc.push("SP:epsilon:-".to_string());
        repc.push(format!("UF:epsilon:{}={:x}", n, r.u32b()));
        repc.push("SP:delta:-".to_string());
    }
    let beh = format!("new={} rep={}", if newc.is_empty() { "-".to_string() } else { newc.join("+") }, if repc.is_empty() { "-".to_string() } else { repc.join("+") });
    // events
    let nev = r.range(2, 16);
    let addrs: Vec<u64> = if adversarial && r.chance(1, 3) { colliding_addrs().to_vec() } else { vec![1u64, 2, 3] };
    let sids = [1u32, 2, 3, 0x10];
    let algnames = ["-", "-", "reno", "renoX", LONG63, LONG63, "cubic", "dflt", "ren", "renoXY", "zzz", "", "renoreno0123456789012345678901234567890123456789012345678901234", &LONG63[..62],
        "reno~0a", "reno~20", "renoX~09", "~20reno", "dflt~0d~0a", "Reno", "reno~00x", "RENO", "tcp_reno", "tcp_renoX", "reno.", "ccp_reno", "reno_",
        // unregistered names that agree with a registered one under a 32-bit digest (FNV-1a, FNV-1, CRC-32, djb2 in both
        // forms, sdbm, the 31-multiplier hash, FNV-1a/64 truncated and folded) or under any digest of the multiset of bytes
        "cubic012345678901234567890123456789012345678901234567890123456", "nptvtxx", "aqoljhgr", "aacswgq", "ljnvuvo", "bboxcdf", "ajfwbvrx", "bmkcjyf", "jglvyrn", "bnprifm",
        "chbfzfa", "koumobg", "vqovhrp", "renny", "dsrrwso", "rennw", "kctfgyv", "alhqrvl", "oner", "Xoner", "onerX"];
    let mut evs = vec![];
    let mut live: Vec<(u64, u32)> = vec![];
    let mut sends_guess = 0usize;
    let mut addrs = addrs;
    if adversarial && r.chance(1, 25) {
        // a crowd: two datapaths with live flows, some seventy that only announce themselves, newcomers later
        evs.push("D1:RDY:1".to_string()); evs.push(format!("D1:CR:1:-:{:x}:5a8", r.u32b())); live.push((1, 1));
        evs.push(format!("D2:CR:2:reno:{:x}:5a8", r.u32b())); live.push((2, 2));
        let crowd = r.range(60, 72);
        for k in 0..crowd { evs.push(format!("D{:x}:{}", 0x100 + k, if k % 9 == 4 { format!("CR:7:-:{:x}:5a8+MS:7:xf0000001:0:-", r.u32b()) } else { format!("RDY:{:x}", k) })); }
        addrs.extend([0x300u64, 0x301, 0x100, 0x101]);
    }
    for _ in 0..nev {
        if r.chance(1, 20) { evs.push("E".to_string()); continue; }
        if r.chance(1, 60) { evs.push("S".to_string()); continue; }
        let a = *r.pick(&addrs);
        let nm = if r.chance(1, 50) { r.range(10, 14) } else { r.range(1, 4) };
        let mut ms: Vec<String> = vec![];
        for _ in 0..nm {
            // raw bytes may swallow what follows them as payload: keep runtime uids (which differ
            // between the implementation and the model's canonical numbering) out of that payload
            let after_raw = ms.iter().any(|m| m.starts_with("RAW"));
            let mine: Vec<u32> = live.iter().filter(|(x, _)| *x == a).map(|(_, s)| *s).collect();
            let roll = r.below(100);
            let m = if roll < 6 {
                live.retain(|(x, _)| *x != a); sends_guess += 4;
                format!("RDY:{:x}", r.below(9))
            } else if roll < 32 {
                let sid = if !mine.is_empty() && r.chance(1, 4) { *r.pick(&mine) } else { *r.pick(&sids) };
                if !live.contains(&(a, sid)) { live.push((a, sid)); }
                sends_guess += 5;
                format!("CR:{:x}:{}:{:x}:{:x}", sid, r.pick(&algnames), r.u32b(), r.u32b())
            } else if roll < 78 {
                // a measurement: mostly for a live flow of this address, mostly from the selected program
                let sid = if !mine.is_empty() && r.chance(5, 6) { *r.pick(&mine) } else { *r.pick(&sids) };
                let n = if r.chance(1, 10) { r.below(20) } else { r.range(1, 4) } as usize;
                let u = if after_raw { format!("x{:x}", 0xF000_0000u32 + r.below(100) as u32) }
                    else if r.chance(3, 4) { uidref_of(r, main) }
                    else if r.chance(2, 3) { let q = *r.pick(&[0usize, 1, 2, 3, 4, 6, 7, 8, 10, 13]); uidref_of(r, q) }
                    else { format!("x{:x}", 0xF000_0000u32 + r.below(100) as u32) };
                let nf = if r.chance(1, 15) { r.below(6) } else { n as u64 };
                if nf == 0 { live.retain(|x| *x != (a, sid)); }
                sends_guess += 1;
                format!("MS:{:x}:{}:{:x}:{}", sid, u, nf, if n == 0 { "-".to_string() } else { (0..n).map(|_| format!("{:x}", r.u64b())).collect::<Vec<_>>().join(",") })
            } else if roll < 86 {
                let sid = if !mine.is_empty() && r.chance(3, 4) { *r.pick(&mine) } else { *r.pick(&sids) };
                live.retain(|x| *x != (a, sid));
                format!("MS:{:x}:xf0000001:0:-", sid)
            } else if !adversarial {
                format!("RAW:{}", { let t = *r.pick(&[4u8, 6, 7, 9, 255]); let mut b = vec![t, 0, 8 + r.below(6) as u8, 0, 1, 0, 0, 0]; b.extend(r.bytes(8)); hex(&b[..(b[2] as usize).min(b.len())]) })
            } else {
                match r.below(8) {
                    0 | 1 => format!("RAW:{}", { let t = r.below(9); let mut b = vec![t as u8, 0, 8 + r.below(6) as u8, 0, 1, 0, 0, 0]; b.extend(r.bytes(8)); hex(&b[..(b[2] as usize).min(b.len())]) }),
                    2 => format!("RAW:{}", { let n = r.below(40) as usize; hex(&r.bytes(n.max(1))) }),
                    3 => format!("RAW:{}", { let t = *r.pick(&[2u8, 3, 4, 6, 255]); let mut b = vec![t, 0, 24, 0]; b.extend(r.bytes(20)); hex(&b) }),
                    4 => format!("RAW:{}", { let t = *r.pick(&[4u8, 6, 8, 200, 255]); let mut b = vec![t, *r.pick(&[0u8, 0, 1, 255]), 16, 0]; b.extend(r.bytes(12)); hex(&b) }),
                    5 => format!("RAW:{}", { let n = 1000 + r.below(200) as usize; let mut b = vec![9u8, 0, 8, 0]; b.extend(r.bytes(n)); hex(&b) }),
                    _ => format!("RAW:{}", { let mut b = vec![*r.pick(&[0u8, 1, 5]), *r.pick(&[0u8, 0, 1]), r.below(40) as u8, 0]; let n = r.below(36) as usize; b.extend(r.bytes(n)); hex(&b) }),
                }
            };
            ms.push(m);
        }
        if r.chance(1, 12) { if let Some(last) = ms.pop() { if last.starts_with("CR:") || last.starts_with("MS:") { ms.push(format!("CUT:{}:{}", r.pick(&[4usize, 8, 9, 12, 16, 20, 24, 31, 32, 40, 60, 95]), last)); } else { ms.push(last); } } }
        evs.push(format!("D{:x}:{}", a, ms.join("+")));
    }
    let sendfail = if faults && r.chance(1, 3) { format!("{}", r.below(sends_guess as u64 + 4)) } else { "-".to_string() };
    let opts = format!("stop0={} sendfail={}", if r.chance(1, 60) { 1 } else { 0 }, sendfail);
    format!("{} | {} | {} | {} | {}", algs.join(" "), ip.join(" "), beh, opts, if evs.is_empty() { "-".to_string() } else { evs.join(" ; ") })
}

pub fn run_stream(kind: &str, tier: &str, seed: u64, out: &mut dyn Write) {
    let thorough = tier == "thorough";
    let (salt, n, adv, faults) = match kind {
        "loop" => (0x10u64, if thorough { 60_000 } else { 3_000 }, false, false),
        "loopadv" => (0x16, if thorough { 60_000 } else { 3_000 }, true, true),
        _ => (0x99, 1000, true, true),
    };
    let mut r = Rng::new(seed ^ salt);
    // the program descriptors the model needs are sent once, as a pseudo-case the driver stores
    let desc = prog_descriptors();
    for _ in 0..n {
        let arg = gen_case(&mut r, adv, faults);
        let res = eval(&arg);
        writeln!(out, "loop\t{}\t{}", with_descriptors(&arg, &desc), res).unwrap();
    }
}

// ------------------------------------------------------------------ C16: ignored messages are inert

/// A datagram the runtime must ignore whatever state it is in: a well-framed message of an
/// unknown type, or a measurement / close for a flow id no create ever announced (0x77).
fn gen_junk(r: &mut Rng) -> String {
    let a = r.range(1, 3);
    match r.below(4) {
        0 => format!("D{:x}:MS:77:xf0000009:{:x}:{}", a, 1 + r.below(3), (0..3).map(|_| format!("{:x}", r.u64b())).collect::<Vec<_>>().join(",")),
        1 => format!("D{:x}:MS:77:xf0000001:0:-", a),
        2 => { let t = *r.pick(&[6u8, 7, 9, 200, 255]); let k = r.below(12) as usize; let mut b = vec![t, 0, 8 + k as u8, 0]; b.extend(r.bytes(4 + k)); format!("D{:x}:RAW:{}", a, hex(&b)) }
        _ => { let t = *r.pick(&[6u8, 9, 255]); let mut b = vec![t, 0, 8, 0, 1, 0, 0, 0]; b.extend(vec![t, 0, 12, 0, 2, 0, 0, 0, 1, 2, 3, 4]); format!("D{:x}:RAW:{}", a, hex(&b)) }
    }
}

pub fn eval_ignore(arg: &str) -> String {
    match arg.split_once(" ## ") {
        Some((a, b)) => {
            let (ra, rb) = (eval(a), eval(b));
            if ra == rb { "SAME".into() } else { format!("DIFF {} ## {}", ra, rb) }
        }
        None => "UNPARSABLE".into(),
    }
}

/// metamorphic: the same history with and without ignorable datagrams, both through the implementation
pub fn run_ignore_stream(tier: &str, seed: u64, out: &mut dyn Write) {
    let n = if tier == "thorough" { 30_000 } else { 1_500 };
    let mut r = Rng::new(seed ^ 0x1616);
    let desc = prog_descriptors();
    for _ in 0..n {
        let adv = r.chance(1, 3);
        let base = gen_case(&mut r, adv, false);
        let secs: Vec<&str> = base.split(" | ").collect();
        let mut evs: Vec<String> = if secs[4].trim() == "-" { vec![] } else { secs[4].split(" ; ").map(|x| x.to_string()).collect() };
        let k = r.range(1, 3);
        for _ in 0..k {
            // a datagram of its own, or a message put in front of / between the messages of an existing datagram
            // (only short datagrams, so that the receive buffer still holds all of it, and only in front:
            // behind a malformed message the junk would become part of that message's payload)
            let dgrams: Vec<usize> = evs.iter().enumerate().filter(|(_, e)| e.starts_with('D') && e.contains(':') && e.matches('+').count() < 4 && e.len() < 600).map(|(i, _)| i).collect();
            if !dgrams.is_empty() && r.chance(1, 2) {
                let i = *r.pick(&dgrams);
                let (head, body) = evs[i].split_once(':').map(|(a, b)| (a.to_string(), b.to_string())).unwrap();
                let mut ms: Vec<String> = body.split('+').map(|x| x.to_string()).collect();
                let junk = match r.below(3) {
                    0 => { let t = *r.pick(&[6u8, 7, 9, 200, 255]); let kk = *r.pick(&[0usize, 0, 1, 3, 4, 5, 8]); let mut b = vec![t, 0, 8 + kk as u8, 0]; b.extend(r.bytes(4 + kk)); format!("RAW:{}", hex(&b)) }
                    1 => "MS:77:xf0000001:0:-".to_string(),
                    _ => format!("MS:77:xf0000009:2:{:x},{:x}", r.u64b(), r.u64b()),
                };
                ms.insert(0, junk);
                evs[i] = format!("{}:{}", head, ms.join("+"));
            } else {
                let pos = r.below(evs.len() as u64 + 1) as usize; evs.insert(pos, gen_junk(&mut r));
            }
        }
        let variant = format!("{} | {}", secs[..4].join(" | "), evs.join(" ; "));
        let arg = format!("{} ## {}", base, variant);
        let res = eval_ignore(&arg);
        writeln!(out, "ignore\t{} ## {}\t{}", with_descriptors(&base, &desc), with_descriptors(&variant, &desc), res).unwrap();
    }
}
