//! A scripted, single-threaded transport: `recv` pops scripted events, `send` records.
//! Everything observable goes into one ordered log shared with the recording algorithms.
use portus::ipc::Ipc;
use portus::{Error, Result};
use std::collections::{HashSet, VecDeque};
use std::sync::atomic::{AtomicBool, Ordering};
use std::sync::{Arc, Mutex};

#[derive(Clone, Debug)]
pub enum Ev {
    Dgram(u8, Vec<u8>),
    RecvErr,
    Stop,
}

#[derive(Default)]
pub struct Shared {
    pub script: VecDeque<Ev>,
    pub log: Vec<String>,
    pub sends: usize,
    pub send_fail_at: HashSet<usize>,
    pub closed: usize,
    pub recv_calls: usize,
    pub recv_calls_after_stop: usize,
    pub stopped: bool,
}

pub struct ScriptIpc {
    pub sh: Arc<Mutex<Shared>>,
    pub flag: Arc<AtomicBool>,
}

impl Ipc for ScriptIpc {
    type Addr = u8;
    fn name() -> String { "script".to_string() }
    fn send(&self, msg: &[u8], to: &u8) -> Result<()> {
        let mut s = self.sh.lock().unwrap();
        let k = s.sends;
        s.sends += 1;
        if s.send_fail_at.contains(&k) {
            s.log.push(format!("SENDFAIL {:x}", to));
            return Err(Error("scripted send failure".into()));
        }
        s.log.push(format!("SEND {:x} {}", to, crate::util::hex(msg)));
        Ok(())
    }
    fn recv(&self, msg: &mut [u8]) -> Result<(usize, u8)> {
        let mut s = self.sh.lock().unwrap();
        s.recv_calls += 1;
        if s.stopped { s.recv_calls_after_stop += 1; }
        match s.script.pop_front() {
            Some(Ev::Dgram(a, d)) => {
                let n = d.len().min(msg.len());
                msg[..n].copy_from_slice(&d[..n]);
                Ok((n, a))
            }
            Some(Ev::RecvErr) => Err(Error("scripted recv failure".into())),
            Some(Ev::Stop) | None => {
                s.stopped = true;
                self.flag.store(false, Ordering::SeqCst);
                Err(Error("scripted stop".into()))
            }
        }
    }
    fn close(&mut self) -> Result<()> {
        let mut s = self.sh.lock().unwrap();
        s.closed += 1;
        s.log.push("CLOSE-TRANSPORT".to_string());
        Ok(())
    }
}

pub fn parse_events(items: &[&str]) -> Option<Vec<Ev>> {
    let mut v = vec![];
    for it in items {
        let it = it.trim();
        if it == "E" { v.push(Ev::RecvErr); }
        else if it == "S" { v.push(Ev::Stop); }
        else if let Some(rest) = it.strip_prefix('D') {
            let (a, h) = rest.split_once(':')?;
            v.push(Ev::Dgram(u8::from_str_radix(a, 16).ok()?, crate::util::unhex(h)));
        } else if it.is_empty() { continue; }
        else { return None; }
    }
    Some(v)
}

pub fn events_str(evs: &[Ev]) -> String {
    evs.iter().map(|e| match e {
        Ev::Dgram(a, d) => format!("D{:x}:{}", a, crate::util::hex(d)),
        Ev::RecvErr => "E".to_string(),
        Ev::Stop => "S".to_string(),
    }).collect::<Vec<_>>().join(" ; ")
}
