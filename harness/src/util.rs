use std::panic::{catch_unwind, AssertUnwindSafe};

pub fn hex_raw(b: &[u8]) -> String {
    let mut s = String::with_capacity(b.len() * 2);
    for x in b { s.push_str(&format!("{:02x}", x)); }
    s
}
/// hex with "-" for the empty string (so that a field is never empty)
pub fn hex(b: &[u8]) -> String { if b.is_empty() { "-".to_string() } else { hex_raw(b) } }
pub fn hexlist(v: &[u64]) -> String {
    if v.is_empty() { "-".to_string() } else { v.iter().map(|x| format!("{:x}", x)).collect::<Vec<_>>().join(",") }
}
pub fn unhex(s: &str) -> Vec<u8> {
    if s == "-" { return vec![]; }
    (0..s.len() / 2).map(|i| u8::from_str_radix(&s[2 * i..2 * i + 2], 16).unwrap()).collect()
}
/// Run f, turning a panic into None.
pub fn catch<T>(f: impl FnOnce() -> T) -> Option<T> { catch_unwind(AssertUnwindSafe(f)).ok() }
pub fn quiet_panics() { if std::env::var("HARNESS_LOUD").is_ok() { return; } std::panic::set_hook(Box::new(|_| {})); }

