//! C18 through the builder API: a stop handle supplied at any position of the builder chain, on an
//! inline and on a spawned runtime, and `kill` on a spawned one.  The transport is idle (every
//! receive fails after a short sleep), so only the stop request can end the run.
use portus::ipc::{BackendBuilder, Ipc};
use portus::{CongAlg, Datapath, DatapathInfo, DatapathTrait, Error, Flow, Report, Result, RunBuilder};
use std::collections::HashMap;
use std::io::Write;
use std::sync::atomic::{AtomicBool, AtomicUsize, Ordering};
use std::sync::{mpsc, Arc};
use std::time::Duration;

struct IdleIpc { closed: Arc<AtomicUsize> }
impl Ipc for IdleIpc {
    type Addr = u8;
    fn name() -> String { "idle".into() }
    fn send(&self, _msg: &[u8], _to: &u8) -> Result<()> { Ok(()) }
    fn recv(&self, _msg: &mut [u8]) -> Result<(usize, u8)> { std::thread::sleep(Duration::from_millis(2)); Err(Error("nothing to read".into())) }
    fn close(&mut self) -> Result<()> { self.closed.fetch_add(1, Ordering::SeqCst); Ok(()) }
}
struct NopAlg;
struct NopFlow;
impl Flow for NopFlow { fn on_report(&mut self, _s: u32, _m: Report) {} }
impl<I: Ipc> CongAlg<I> for NopAlg {
    type Flow = NopFlow;
    fn name() -> &'static str { "nop" }
    fn datapath_programs(&self) -> HashMap<&'static str, String> {
        let mut h = HashMap::new();
        h.insert("p", "(def (Report (x 0))) (when true (report))".to_string());
        h
    }
    fn new_flow(&self, _c: Datapath<I>, _i: DatapathInfo) -> NopFlow { NopFlow }
}

fn finish(rx: mpsc::Receiver<std::result::Result<(), String>>, closed: &Arc<AtomicUsize>, h: &Arc<AtomicBool>) -> String {
    match rx.recv_timeout(Duration::from_secs(4)) {
        // (the request is the caller's: the handle still reads "stop" after the run has returned)
        Ok(Ok(())) => { std::thread::sleep(Duration::from_millis(20)); format!("returned-ok closed={} strong={} request-kept={}", closed.load(Ordering::SeqCst), Arc::strong_count(h), !h.load(Ordering::SeqCst)) }
        Ok(Err(e)) => format!("returned-error {}", e.replace(' ', "-")),
        Err(_) => "did-not-return-within-4s".to_string(),
    }
}

pub fn run_apiorder(out: &mut dyn Write) {
    let cases = ["inline stop,alg", "inline alg,stop", "inline raw-stop,alg", "spawn stop,alg,spawn", "spawn alg,stop,spawn", "spawn alg,spawn,stop",
                 "spawn raw-stop,alg,spawn", "spawn alg,spawn,raw-stop", "spawn alg,spawn kill"];
    for case in cases.iter() {
        let closed = Arc::new(AtomicUsize::new(0));
        let h = Arc::new(AtomicBool::new(true));
        let (tx, rx) = mpsc::channel();
        let mk = || BackendBuilder { sock: IdleIpc { closed: closed.clone() } };
        let res = crate::util::catch(|| {
            match *case {
                "inline stop,alg" => { let (h2, c2) = (h.clone(), closed.clone());
                    std::thread::spawn(move || { let rb = RunBuilder::new(BackendBuilder { sock: IdleIpc { closed: c2 } }).with_stop_handle(h2).default_alg(NopAlg);
                        let _ = tx.send(rb.run().map_err(|e| e.0)); }); }
                "inline alg,stop" => { let (h2, c2) = (h.clone(), closed.clone());
                    std::thread::spawn(move || { let rb = RunBuilder::new(BackendBuilder { sock: IdleIpc { closed: c2 } }).default_alg(NopAlg).with_stop_handle(h2);
                        let _ = tx.send(rb.run().map_err(|e| e.0)); }); }
                "inline raw-stop,alg" => { let (h2, c2) = (h.clone(), closed.clone());
                    std::thread::spawn(move || { let rb = unsafe { RunBuilder::new(BackendBuilder { sock: IdleIpc { closed: c2 } }).with_raw_stop_handle(Arc::into_raw(h2)) }.default_alg(NopAlg);
                        let _ = tx.send(rb.run().map_err(|e| e.0)); }); }
                "spawn stop,alg,spawn" => { let ch = RunBuilder::new(mk()).with_stop_handle(h.clone()).default_alg(NopAlg).spawn_thread().run();
                    std::thread::spawn(move || { let _ = tx.send(ch.and_then(|c| c.wait()).map_err(|e| e.0)); }); }
                "spawn alg,stop,spawn" => { let ch = RunBuilder::new(mk()).default_alg(NopAlg).with_stop_handle(h.clone()).spawn_thread().run();
                    std::thread::spawn(move || { let _ = tx.send(ch.and_then(|c| c.wait()).map_err(|e| e.0)); }); }
                "spawn alg,spawn,stop" => { let ch = RunBuilder::new(mk()).default_alg(NopAlg).spawn_thread().with_stop_handle(h.clone()).run();
                    std::thread::spawn(move || { let _ = tx.send(ch.and_then(|c| c.wait()).map_err(|e| e.0)); }); }
                "spawn raw-stop,alg,spawn" => { let ch = unsafe { RunBuilder::new(mk()).with_raw_stop_handle(Arc::into_raw(h.clone())) }.default_alg(NopAlg).spawn_thread().run();
                    std::thread::spawn(move || { let _ = tx.send(ch.and_then(|c| c.wait()).map_err(|e| e.0)); }); }
                "spawn alg,spawn,raw-stop" => { let ch = unsafe { RunBuilder::new(mk()).default_alg(NopAlg).spawn_thread().with_raw_stop_handle(Arc::into_raw(h.clone())) }.run();
                    std::thread::spawn(move || { let _ = tx.send(ch.and_then(|c| c.wait()).map_err(|e| e.0)); }); }
                _ => { let ch = RunBuilder::new(mk()).default_alg(NopAlg).spawn_thread().run();
                    std::thread::spawn(move || { let _ = tx.send(ch.and_then(|c| { std::thread::sleep(Duration::from_millis(30)); c.kill(); c.wait() }).map_err(|e| e.0)); }); }
            }
        });
        let line = match res {
            None => "PANIC".to_string(),
            Some(()) => { std::thread::sleep(Duration::from_millis(30)); h.store(false, Ordering::SeqCst); finish(rx, &closed, &h) }
        };
        writeln!(out, "apiorder\t{}\t{}", case, line).unwrap();
    }
    // one stop handle given to two runtimes: one request ends both
    {
        let closed = Arc::new(AtomicUsize::new(0));
        let h = Arc::new(AtomicBool::new(true));
        let (tx, rx) = mpsc::channel();
        let res = crate::util::catch(|| {
            for _ in 0..2 {
                let (h2, c2, tx2) = (h.clone(), closed.clone(), tx.clone());
                std::thread::spawn(move || { let rb = RunBuilder::new(BackendBuilder { sock: IdleIpc { closed: c2 } }).default_alg(NopAlg).with_stop_handle(h2);
                    let _ = tx2.send(rb.run().map_err(|e| e.0)); });
            }
        });
        let line = match res {
            None => "PANIC".to_string(),
            Some(()) => {
                std::thread::sleep(Duration::from_millis(40)); h.store(false, Ordering::SeqCst);
                let a = rx.recv_timeout(Duration::from_secs(4)); let b = rx.recv_timeout(Duration::from_secs(4));
                match (a, b) {
                    (Ok(Ok(())), Ok(Ok(()))) => { std::thread::sleep(Duration::from_millis(20)); format!("returned-ok closed={} strong={} request-kept={}", closed.load(Ordering::SeqCst), Arc::strong_count(&h), !h.load(Ordering::SeqCst)) }
                    (Ok(Err(e)), _) | (_, Ok(Err(e))) => format!("returned-error {}", e.replace(' ', "-")),
                    _ => { h.store(false, Ordering::SeqCst); "one-of-two-runtimes-did-not-return-within-4s".to_string() }
                }
            }
        };
        writeln!(out, "apiorder\tshared-handle two runtimes\t{}", line).unwrap();
    }
    // a flow's handle kept beyond the run: once the runtime has returned, a command through it is an error,
    // not a success that transmitted nothing
    {
        let sent = Arc::new(AtomicUsize::new(0));
        let closed = Arc::new(AtomicUsize::new(0));
        let created = Arc::new(AtomicBool::new(false));
        let h = Arc::new(AtomicBool::new(true));
        let cr = portus::serialize::serialize(&portus::serialize::create::Msg { sid: 1, init_cwnd: 14480, mss: 1448, src_ip: 1, src_port: 2, dst_ip: 3, dst_port: 4, cong_alg: None }).unwrap();
        let (h2, sent2, closed2, created2) = (h.clone(), sent.clone(), closed.clone(), created.clone());
        let (tx, rx) = mpsc::channel();
        std::thread::spawn(move || {
            let slot: std::rc::Rc<std::cell::RefCell<Option<Datapath<QueueIpc>>>> = std::rc::Rc::new(std::cell::RefCell::new(None));
            let ipc = QueueIpc { q: std::sync::Mutex::new(vec![cr]), sent: sent2.clone(), closed: closed2 };
            let slot2 = slot.clone();
            let res = crate::util::catch(move || { let rb = RunBuilder::new(BackendBuilder { sock: ipc }).default_alg(KeepAlg(slot2, created2)).with_stop_handle(h2); rb.run().map_err(|e| e.0) });
            let line = match res {
                Some(Ok(())) => {
                    let before = sent2.load(Ordering::SeqCst);
                    let dp = slot.borrow_mut().take();
                    match dp {
                        None => "the-flow-was-never-created".to_string(),
                        Some(mut dp) => match crate::util::catch(move || dp.set_program("p", None).is_ok()) {
                            None => "PANIC".to_string(),
                            Some(false) => "error".to_string(),
                            Some(true) => format!("reported-success transmitted={}", sent2.load(Ordering::SeqCst) - before),
                        }
                    }
                }
                Some(Err(e)) => format!("returned-error {}", e.replace(' ', "-")),
                None => "PANIC".to_string(),
            };
            let _ = tx.send(line);
        });
        let t0 = std::time::Instant::now();
        while !created.load(Ordering::SeqCst) && t0.elapsed() < Duration::from_secs(3) { std::thread::sleep(Duration::from_millis(2)); }
        h.store(false, Ordering::SeqCst);
        let line = rx.recv_timeout(Duration::from_secs(4)).unwrap_or_else(|_| "did-not-return-within-4s".to_string());
        writeln!(out, "apiorder\tlate-handle set_program after the run returned\t{}", line).unwrap();
    }
}

struct QueueIpc { q: std::sync::Mutex<Vec<Vec<u8>>>, sent: Arc<AtomicUsize>, closed: Arc<AtomicUsize> }
impl Ipc for QueueIpc {
    type Addr = u8;
    fn name() -> String { "queue".into() }
    fn send(&self, _msg: &[u8], _to: &u8) -> Result<()> { self.sent.fetch_add(1, Ordering::SeqCst); Ok(()) }
    fn recv(&self, msg: &mut [u8]) -> Result<(usize, u8)> {
        let next = { let mut q = self.q.lock().unwrap(); if q.is_empty() { None } else { Some(q.remove(0)) } };
        match next { Some(d) => { msg[..d.len()].copy_from_slice(&d); Ok((d.len(), 1)) } None => { std::thread::sleep(Duration::from_millis(2)); Err(Error("nothing to read".into())) } }
    }
    fn close(&mut self) -> Result<()> { self.closed.fetch_add(1, Ordering::SeqCst); Ok(()) }
}
struct KeepAlg(std::rc::Rc<std::cell::RefCell<Option<Datapath<QueueIpc>>>>, Arc<AtomicBool>);
impl CongAlg<QueueIpc> for KeepAlg {
    type Flow = NopFlow;
    fn name() -> &'static str { "keep" }
    fn datapath_programs(&self) -> HashMap<&'static str, String> {
        let mut h = HashMap::new();
        h.insert("p", "(def (Report (x 0))) (when true (report))".to_string());
        h
    }
    fn new_flow(&self, c: Datapath<QueueIpc>, _i: DatapathInfo) -> NopFlow { *self.0.borrow_mut() = Some(c); self.1.store(true, Ordering::SeqCst); NopFlow }
}

/// C18/C16/C19 on the real unix-datagram transport: every constructor gives a socket on which an idle
/// runtime notices a stop request within about one receive timeout; the address reported for a
/// sender is the address it is bound to, verbatim; a long run of sends to one destination does not
/// change where later sends go.
pub fn run_unixapi(out: &mut dyn Write) {
    use portus::ipc::unix::Socket;
    use portus::ipc::{Blocking, Nonblocking};
    let tag = format!("pvapi{}", std::process::id());
    // ---- stop latency on an idle socket, per constructor
    for ctor in ["blocking new", "blocking new_with_skbuf", "blocking new_with_skbuf sized", "nonblocking new", "nonblocking new_with_skbuf"] {
        let name = format!("{}-{}", tag, ctor.replace(' ', "_"));
        let (tx, rx) = mpsc::channel();
        let h = Arc::new(AtomicBool::new(true));
        let h2 = h.clone();
        let name2 = name.clone();
        let ctor2 = ctor.to_string();
        std::thread::spawn(move || {
            macro_rules! go { ($sk:expr) => { match $sk { Ok(sk) => { let rb = RunBuilder::new(BackendBuilder { sock: sk }).default_alg(NopAlg).with_stop_handle(h2); let _ = tx.send(rb.run().map_err(|e| e.0)); } Err(e) => { let _ = tx.send(Err(format!("cannot-bind {}", e.0))); } } } }
            match ctor2.as_str() {
                "blocking new" => go!(Socket::<Blocking>::new(&name2)),
                "blocking new_with_skbuf" => go!(Socket::<Blocking>::new_with_skbuf(&name2, None, None)),
                "blocking new_with_skbuf sized" => go!(Socket::<Blocking>::new_with_skbuf(&name2, Some(262144), Some(262144))),
                "nonblocking new" => go!(Socket::<Nonblocking>::new(&name2)),
                _ => go!(Socket::<Nonblocking>::new_with_skbuf(&name2, Some(262144), None)),
            }
        });
        std::thread::sleep(Duration::from_millis(150));
        h.store(false, Ordering::SeqCst);
        let res = match rx.recv_timeout(Duration::from_millis(3500)) {
            Ok(Ok(())) => "returned-ok".to_string(),
            Ok(Err(e)) => format!("returned-error {}", e.replace(' ', "-")),
            Err(_) => "did-not-return-within-3.5s".to_string(),
        };
        writeln!(out, "unixapi\tstop {}\t{}", ctor, res).unwrap();
        let _ = std::fs::remove_file(format!("/tmp/ccp/{}", name));
    }
    // ---- stop while a peer without a path of its own keeps sending (its datagrams carry no address)
    for ctor in ["blocking new", "nonblocking new"] {
        let name = format!("{}-unb-{}", tag, ctor.replace(' ', "_"));
        let (tx, rx) = mpsc::channel();
        let h = Arc::new(AtomicBool::new(true));
        let (h2, name2, ctor2) = (h.clone(), name.clone(), ctor.to_string());
        std::thread::spawn(move || {
            macro_rules! go { ($sk:expr) => { match $sk { Ok(sk) => { let rb = RunBuilder::new(BackendBuilder { sock: sk }).default_alg(NopAlg).with_stop_handle(h2); let _ = tx.send(rb.run().map_err(|e| e.0)); } Err(e) => { let _ = tx.send(Err(format!("cannot-bind {}", e.0))); } } } }
            if ctor2 == "blocking new" { go!(Socket::<Blocking>::new(&name2)) } else { go!(Socket::<Nonblocking>::new(&name2)) }
        });
        let chatter = Arc::new(AtomicBool::new(true));
        let (c2, dst) = (chatter.clone(), format!("/tmp/ccp/{}", name));
        let talker = std::thread::spawn(move || { if let Ok(s) = std::os::unix::net::UnixDatagram::unbound() { while c2.load(Ordering::SeqCst) { let _ = s.send_to(&[9u8, 0, 8, 0, 1, 0, 0, 0], &dst); std::thread::sleep(Duration::from_millis(60)); } } });
        std::thread::sleep(Duration::from_millis(300));
        h.store(false, Ordering::SeqCst);
        let res = match rx.recv_timeout(Duration::from_millis(3500)) {
            Ok(Ok(())) => "returned-ok".to_string(),
            Ok(Err(e)) => format!("returned-error {}", e.replace(' ', "-")),
            Err(_) => "did-not-return-within-3.5s".to_string(),
        };
        chatter.store(false, Ordering::SeqCst); let _ = talker.join();
        writeln!(out, "unixapi\tstop {} while-a-pathless-peer-sends\t{}", ctor, res).unwrap();
        let _ = std::fs::remove_file(format!("/tmp/ccp/{}", name));
    }
    // ---- the sender address is reported verbatim (absolute, and relative to the working directory)
    {
        let rname = format!("{}-addr", tag);
        let res = match Socket::<Blocking>::new(&rname) {
            Err(e) => format!("cannot-bind {}", e.0),
            Ok(recv) => {
                let dir = std::env::temp_dir().join(format!("{}-cwd", tag));
                let _ = std::fs::create_dir_all(&dir);
                let old = std::env::current_dir().ok();
                let mut verdict = "verbatim".to_string();
                if std::env::set_current_dir(&dir).is_ok() {
                    let rel = format!("{}-addr", tag);   // same file name as the receiver's, but in another directory
                    let _ = std::fs::remove_file(&rel);
                    if let Ok(s) = std::os::unix::net::UnixDatagram::bind(&rel) {
                        let _ = s.send_to(b"0123456789abcdef", format!("/tmp/ccp/{}", rname));
                        let mut buf = [0u8; 64];
                        match recv.recv(&mut buf) { Ok((16, a)) => { if a != std::path::PathBuf::from(&rel) { verdict = format!("relative sender {} reported as {}", rel, a.display()); } } r => { verdict = format!("unexpected {:?}", r.map(|x| x.0).ok()); } }
                        let _ = std::fs::remove_file(&rel);
                    }
                    {
                        use std::os::unix::ffi::OsStrExt;
                        let raw = std::ffi::OsStr::from_bytes(b"snd-\xff\xfe-x");
                        let _ = std::fs::remove_file(raw);
                        if let Ok(s) = std::os::unix::net::UnixDatagram::bind(raw) {
                            let _ = s.send_to(b"0123456789abcdef", format!("/tmp/ccp/{}", rname));
                            let mut buf = [0u8; 64];
                            match recv.recv(&mut buf) { Ok((16, a)) => { if a.as_os_str() != raw && verdict == "verbatim" { verdict = format!("a sender path that is not UTF-8 was reported as {}", a.display()); } } r => { if verdict == "verbatim" { verdict = format!("unexpected {:?}", r.map(|x| x.0).ok()); } } }
                            let _ = std::fs::remove_file(raw);
                        }
                    }
                    let abs = dir.join("abs-sender");
                    let _ = std::fs::remove_file(&abs);
                    if let Ok(s) = std::os::unix::net::UnixDatagram::bind(&abs) {
                        let _ = s.send_to(b"0123456789abcdef", format!("/tmp/ccp/{}", rname));
                        let mut buf = [0u8; 64];
                        match recv.recv(&mut buf) { Ok((16, a)) => { if a != abs && verdict == "verbatim" { verdict = format!("absolute sender reported as {}", a.display()); } } r => { if verdict == "verbatim" { verdict = format!("unexpected {:?}", r.map(|x| x.0).ok()); } } }
                        let _ = std::fs::remove_file(&abs);
                    }
                    if let Some(o) = old { let _ = std::env::set_current_dir(o); }
                }
                let _ = std::fs::remove_dir_all(&dir);
                verdict
            }
        };
        writeln!(out, "unixapi\tsender-address\t{}", res).unwrap();
        let _ = std::fs::remove_file(format!("/tmp/ccp/{}", rname));
    }
    // ---- a long run of sends to one destination, then other destinations, then a third party sends to the sender
    {
        let names: Vec<String> = ["a", "b", "c", "d"].iter().map(|x| format!("{}-run-{}", tag, x)).collect();
        let socks: Vec<_> = names.iter().map(|n| Socket::<Nonblocking>::new(n)).collect();
        let res = if socks.iter().any(|s| s.is_err()) { "cannot-bind".to_string() } else {
            let socks: Vec<Socket<Nonblocking>> = socks.into_iter().map(|s| s.unwrap()).collect();
            let path = |i: usize| std::path::PathBuf::from(format!("/tmp/ccp/{}", names[i]));
            let mut verdict = "each-datagram-reached-its-addressee".to_string();
            let mut buf = [0u8; 64];
            let mut seq = 0u32;
            // 600 back-to-back sends a -> b, drained as we go
            for _ in 0..600 { seq += 1; if socks[0].send(&seq.to_le_bytes(), &path(1)).is_err() { verdict = "send a->b failed".into(); break; }
                match socks[1].recv(&mut buf) { Ok((4, _)) if buf[..4] == seq.to_le_bytes() => {} _ => { verdict = format!("datagram {} a->b not delivered", seq); break; } } }
            // then a -> c, a -> d, a -> b again
            for (k, dst) in [2usize, 3, 1, 2].iter().enumerate() {
                seq += 1;
                if verdict != "each-datagram-reached-its-addressee" { break; }
                if socks[0].send(&seq.to_le_bytes(), &path(*dst)).is_err() { verdict = format!("send {} to {} failed", k, names[*dst]); break; }
                for (i, s) in socks.iter().enumerate().skip(1) {
                    let got = matches!(s.recv(&mut buf), Ok((4, _)) if buf[..4] == seq.to_le_bytes());
                    if got != (i == *dst) { verdict = format!("datagram addressed to {} was {} by {}", names[*dst], if got { "received" } else { "not received" }, names[i]); }
                }
            }
            // a third party can still reach the sender
            if verdict == "each-datagram-reached-its-addressee" {
                if socks[3].send(b"ping", &path(0)).is_err() { verdict = "third party cannot send to the sender any more".into(); }
                else if !matches!(socks[0].recv(&mut buf), Ok((4, _))) { verdict = "third party's datagram to the sender was lost".into(); }
            }
            verdict
        };
        writeln!(out, "unixapi\tlong-run-then-other-destinations\t{}", res).unwrap();
        for n in &names { let _ = std::fs::remove_file(format!("/tmp/ccp/{}", n)); }
    }

    // ---- the runtime on the in-process channel transport, polling: a backlog is queued before it starts.
    //      Datagrams the runtime must ignore (undecodable, unknown type with stray bytes after its declared
    //      length, a measurement for a flow nobody created) do not change what it does with the ones behind them.
    {
        use portus::serialize::{self, create, measure};
        let cr = |sid: u32| serialize::serialize(&create::Msg { sid, init_cwnd: 14480, mss: 1448, src_ip: 1, src_port: 4242, dst_ip: 2, dst_port: 4242, cong_alg: None }).unwrap();
        let ms = |sid: u32, v: u64| serialize::serialize(&measure::Msg { sid, program_uid: 1, num_fields: 1, fields: vec![v] }).unwrap();
        let junk: [(&str, Vec<u8>); 4] = [("undecodable", vec![0xff, 0xff, 0xff, 0xff]),
            ("unknown-type-with-stray-bytes", vec![9, 0, 8, 0, 1, 0, 0, 0, 0, 0, 0x60, 0]),
            ("unknown-type", vec![9, 0, 8, 0, 1, 0, 0, 0]),
            ("measurement-for-no-flow", ms(77, 5))];
        let run = |dgrams: Vec<Vec<u8>>| -> Option<Vec<String>> {
            let (to_ccp, from_dp) = crossbeam::channel::unbounded::<Vec<u8>>();
            let (to_dp, _from_ccp) = crossbeam::channel::unbounded::<Vec<u8>>();
            for d in dgrams { to_ccp.send(d).unwrap(); }
            let log = Arc::new(std::sync::Mutex::new(Vec::<String>::new()));
            let h = Arc::new(AtomicBool::new(true));
            let (tx, rx) = mpsc::channel();
            let (l2, h2) = (log.clone(), h.clone());
            std::thread::spawn(move || {
                let sk = portus::ipc::chan::Socket::<Nonblocking>::new(to_dp, from_dp);
                let rb = RunBuilder::new(BackendBuilder { sock: sk }).default_alg(LogAlg(l2)).with_stop_handle(h2);
                let _ = tx.send(crate::util::catch(|| rb.run().map_err(|e| e.0)));
            });
            let t0 = std::time::Instant::now();
            // until the backlog is drained and the five callbacks it calls for were made (or three seconds passed)
            while (!to_ccp.is_empty() || log.lock().unwrap().len() < 5) && t0.elapsed() < Duration::from_secs(3) { std::thread::sleep(Duration::from_millis(2)); }
            std::thread::sleep(Duration::from_millis(40));
            h.store(false, Ordering::SeqCst);
            match rx.recv_timeout(Duration::from_secs(4)) { Ok(Some(_)) => {} _ => return None }
            let l = log.lock().unwrap().clone();
            Some(l)
        };
        for (kind, j) in junk.iter() {
            let clean = vec![cr(1), ms(1, 10), cr(2), ms(2, 20), ms(1, 11)];
            let mut dirty = vec![j.clone()];
            for (i, d) in clean.iter().enumerate() { dirty.push(d.clone()); if i % 2 == 1 { dirty.push(j.clone()); } }
            let res = match (run(clean), run(dirty)) {
                (Some(a), Some(b)) if a == b && a.len() == 5 => "same-dispatch".to_string(),
                (Some(a), Some(b)) if a == b => format!("backlog-not-dispatched: {}", a.join("/")),
                (Some(a), Some(b)) => format!("with-the-ignored-datagrams: {} without: {}", b.join("/"), a.join("/")),
                _ => "PANIC-or-did-not-stop".to_string(),
            };
            writeln!(out, "unixapi\tchan-run {}\t{}", kind, res).unwrap();
        }
    }
}

struct LogAlg(Arc<std::sync::Mutex<Vec<String>>>);
struct LogFlow(Arc<std::sync::Mutex<Vec<String>>>);
impl Flow for LogFlow {
    fn on_report(&mut self, s: u32, m: Report) { self.0.lock().unwrap().push(format!("REP-{}-{}", s, m.program_uid)); }
    fn close(&mut self) { self.0.lock().unwrap().push("CLOSE".to_string()); }
}
impl<I: Ipc> CongAlg<I> for LogAlg {
    type Flow = LogFlow;
    fn name() -> &'static str { "log" }
    fn datapath_programs(&self) -> HashMap<&'static str, String> {
        let mut h = HashMap::new();
        h.insert("p", "(def (Report (x 0))) (when true (report))".to_string());
        h
    }
    fn new_flow(&self, _c: Datapath<I>, i: DatapathInfo) -> LogFlow {
        self.0.lock().unwrap().push(format!("NEW-{}-{}-{}", i.sock_id, i.init_cwnd, i.mss));
        LogFlow(self.0.clone())
    }
}
