//! C18 through the builder API: a stop handle supplied at any position of the builder chain, on an
//! inline and on a spawned runtime, and `kill` on a spawned one.  The transport is idle (every
//! receive fails after a short sleep), so only the stop request can end the run.
use portus::ipc::{BackendBuilder, Ipc};
use portus::{CongAlg, Datapath, DatapathInfo, Error, Flow, Report, Result, RunBuilder};
use std::collections::HashMap;
use std::io::Write;
use std::sync::atomic::{AtomicBool, AtomicUsize, Ordering};
use std::sync::{mpsc, Arc};
use std::time::Duration;

struct IdleIpc { closed: Arc<AtomicUsize> }
impl Ipc for IdleIpc {
    type Addr = u8;
    fn name() -> String { "idle".into() }
    fn send(&self, _msg: &[u8], _to: &u8) -> Result<()> { Ok(()) }
    fn recv(&self, _msg: &mut [u8]) -> Result<(usize, u8)> { std::thread::sleep(Duration::from_millis(2)); Err(Error("nothing to read".into())) }
    fn close(&mut self) -> Result<()> { self.closed.fetch_add(1, Ordering::SeqCst); Ok(()) }
}
struct NopAlg;
struct NopFlow;
impl Flow for NopFlow { fn on_report(&mut self, _s: u32, _m: Report) {} }
impl<I: Ipc> CongAlg<I> for NopAlg {
    type Flow = NopFlow;
    fn name() -> &'static str { "nop" }
    fn datapath_programs(&self) -> HashMap<&'static str, String> {
        let mut h = HashMap::new();
        h.insert("p", "(def (Report (x 0))) (when true (report))".to_string());
        h
    }
    fn new_flow(&self, _c: Datapath<I>, _i: DatapathInfo) -> NopFlow { NopFlow }
}

fn finish(rx: mpsc::Receiver<std::result::Result<(), String>>, closed: &Arc<AtomicUsize>, h: &Arc<AtomicBool>) -> String {
    match rx.recv_timeout(Duration::from_secs(4)) {
        Ok(Ok(())) => { std::thread::sleep(Duration::from_millis(20)); format!("returned-ok closed={} strong={}", closed.load(Ordering::SeqCst), Arc::strong_count(h)) }
        Ok(Err(e)) => format!("returned-error {}", e.replace(' ', "-")),
        Err(_) => "did-not-return-within-4s".to_string(),
    }
}

pub fn run_apiorder(out: &mut dyn Write) {
    let cases = ["inline stop,alg", "inline alg,stop", "inline raw-stop,alg", "spawn stop,alg,spawn", "spawn alg,stop,spawn", "spawn alg,spawn,stop",
                 "spawn raw-stop,alg,spawn", "spawn alg,spawn,raw-stop", "spawn alg,spawn kill"];
    for case in cases.iter() {
        let closed = Arc::new(AtomicUsize::new(0));
        let h = Arc::new(AtomicBool::new(true));
        let (tx, rx) = mpsc::channel();
        let mk = || BackendBuilder { sock: IdleIpc { closed: closed.clone() } };
        let res = crate::util::catch(|| {
            match *case {
                "inline stop,alg" => { let (h2, c2) = (h.clone(), closed.clone());
                    std::thread::spawn(move || { let rb = RunBuilder::new(BackendBuilder { sock: IdleIpc { closed: c2 } }).with_stop_handle(h2).default_alg(NopAlg);
                        let _ = tx.send(rb.run().map_err(|e| e.0)); }); }
                "inline alg,stop" => { let (h2, c2) = (h.clone(), closed.clone());
                    std::thread::spawn(move || { let rb = RunBuilder::new(BackendBuilder { sock: IdleIpc { closed: c2 } }).default_alg(NopAlg).with_stop_handle(h2);
                        let _ = tx.send(rb.run().map_err(|e| e.0)); }); }
                "inline raw-stop,alg" => { let (h2, c2) = (h.clone(), closed.clone());
                    std::thread::spawn(move || { let rb = unsafe { RunBuilder::new(BackendBuilder { sock: IdleIpc { closed: c2 } }).with_raw_stop_handle(Arc::into_raw(h2)) }.default_alg(NopAlg);
                        let _ = tx.send(rb.run().map_err(|e| e.0)); }); }
                "spawn stop,alg,spawn" => { let ch = RunBuilder::new(mk()).with_stop_handle(h.clone()).default_alg(NopAlg).spawn_thread().run();
                    std::thread::spawn(move || { let _ = tx.send(ch.and_then(|c| c.wait()).map_err(|e| e.0)); }); }
                "spawn alg,stop,spawn" => { let ch = RunBuilder::new(mk()).default_alg(NopAlg).with_stop_handle(h.clone()).spawn_thread().run();
                    std::thread::spawn(move || { let _ = tx.send(ch.and_then(|c| c.wait()).map_err(|e| e.0)); }); }
                "spawn alg,spawn,stop" => { let ch = RunBuilder::new(mk()).default_alg(NopAlg).spawn_thread().with_stop_handle(h.clone()).run();
                    std::thread::spawn(move || { let _ = tx.send(ch.and_then(|c| c.wait()).map_err(|e| e.0)); }); }
                "spawn raw-stop,alg,spawn" => { let ch = unsafe { RunBuilder::new(mk()).with_raw_stop_handle(Arc::into_raw(h.clone())) }.default_alg(NopAlg).spawn_thread().run();
                    std::thread::spawn(move || { let _ = tx.send(ch.and_then(|c| c.wait()).map_err(|e| e.0)); }); }
                "spawn alg,spawn,raw-stop" => { let ch = unsafe { RunBuilder::new(mk()).default_alg(NopAlg).spawn_thread().with_raw_stop_handle(Arc::into_raw(h.clone())) }.run();
                    std::thread::spawn(move || { let _ = tx.send(ch.and_then(|c| c.wait()).map_err(|e| e.0)); }); }
                _ => { let ch = RunBuilder::new(mk()).default_alg(NopAlg).spawn_thread().run();
                    std::thread::spawn(move || { let _ = tx.send(ch.and_then(|c| { std::thread::sleep(Duration::from_millis(30)); c.kill(); c.wait() }).map_err(|e| e.0)); }); }
            }
        });
        let line = match res {
            None => "PANIC".to_string(),
            Some(()) => { std::thread::sleep(Duration::from_millis(30)); h.store(false, Ordering::SeqCst); finish(rx, &closed, &h) }
        };
        writeln!(out, "apiorder\t{}\t{}", case, line).unwrap();
    }
}
