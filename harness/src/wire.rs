//! Wire codec streams (C04, C07): run portus' codec on generated inputs and print
//! `cmd \t arg \t result` lines in the canonical format shared with the OCaml driver.
use crate::rng::Rng;
use crate::util::*;
use portus::serialize::{self, create, measure, ready, Msg};
use std::io::Write;

pub fn msg_str(m: &Msg) -> String {
    match m {
        Msg::Cr(c) => format!(
            "CR {:x} {:x} {:x} {:x} {:x} {:x} {:x} {}",
            c.sid, c.init_cwnd, c.mss, c.src_ip, c.src_port, c.dst_ip, c.dst_port,
            match &c.cong_alg { None => "-".to_string(), Some(s) => format!("s:{}", hex_raw(s.as_bytes())) }
        ),
        Msg::Ms(m) => format!("MS {:x} {:x} {:x} {}", m.sid, m.program_uid, m.num_fields, hexlist(&m.fields)),
        Msg::Rdy(r) => format!("RDY {:x}", r.id),
        Msg::Ins(_) => "INS".to_string(),
        Msg::Other(r) => {
            let b = r.get_bytes().map(|b| hex(b)).unwrap_or_else(|_| "GETBYTES-ERR".to_string());
            format!("OTHER {:x} {:x} {:x} {}", r.typ, r.len, r.sid, b)
        }
    }
}

fn frombuf_at(buf: &[u8]) -> String {
    match catch(|| Msg::from_buf(buf).map(|(m, n)| format!("OK {} {}", n, msg_str(&m)))) {
        None => "PANIC".to_string(),
        Some(Err(_)) => "ERR".to_string(),
        Some(Ok(s)) => s,
    }
}

/// Decoding is a function of the bytes: the same bytes are decoded at every alignment of the
/// buffer (offsets 0..7 of an 8-aligned allocation); a difference is reported in place of the result.
pub fn frombuf_str(buf: &[u8]) -> String {
    let first = frombuf_at(buf);
    let mut store: Vec<u64> = vec![0; buf.len() / 8 + 3];
    for off in 0..8usize {
        let bytes: &mut [u8] = unsafe { std::slice::from_raw_parts_mut(store.as_mut_ptr() as *mut u8, store.len() * 8) };
        bytes[off..off + buf.len()].copy_from_slice(buf);
        let r = frombuf_at(&bytes[off..off + buf.len()]);
        if r != first { return format!("ALIGNMENT-DEPENDENT at-offset-{} {} BUT {}", off, r.replace(' ', "_"), first.replace(' ', "_")); }
    }
    first
}

#[derive(Clone, Debug)]
pub enum M {
    Cr(create::Msg),
    Ms(measure::Msg),
    Rdy(ready::Msg),
}

pub fn m_str(m: &M) -> String {
    match m {
        M::Cr(c) => msg_str(&Msg::Cr(c.clone())),
        M::Ms(c) => msg_str(&Msg::Ms(c.clone())),
        M::Rdy(c) => msg_str(&Msg::Rdy(*c)),
    }
}

pub fn ser_m(m: &M) -> Option<Result<Vec<u8>, ()>> {
    catch(|| match m {
        M::Cr(c) => serialize::serialize(c).map_err(|_| ()),
        M::Ms(c) => serialize::serialize(c).map_err(|_| ()),
        M::Rdy(c) => serialize::serialize(c).map_err(|_| ()),
    })
}

pub fn rt_str(m: &M) -> String {
    match ser_m(m) {
        None => "PANIC".to_string(),
        Some(Err(_)) => "ERR".to_string(),
        Some(Ok(bs)) => format!("OK {} | {}", hex(&bs), frombuf_str(&bs)),
    }
}

pub fn decodeall_str(buf: &[u8]) -> String {
    let mut rest = buf;
    let mut out = vec![];
    while !rest.is_empty() {
        match catch(|| Msg::from_buf(rest).map(|(m, n)| (msg_str(&m), n))) {
            None => return "PANIC".to_string(),
            Some(Err(_)) => return "ERR".to_string(),
            Some(Ok((s, n))) => {
                if n == 0 || n > rest.len() { return format!("NOPROGRESS {}", n); }
                out.push(s);
                rest = &rest[n..];
            }
        }
    }
    format!("OK {}", out.join(" ; "))
}

fn gen_name(r: &mut Rng, len: usize) -> String {
    // mostly ASCII, sometimes multi-byte UTF-8 (still `len` bytes when possible)
    let mut s = String::new();
    while s.len() < len {
        let left = len - s.len();
        if left >= 2 && r.chance(1, 8) { s.push('é'); }
        else if left >= 3 && r.chance(1, 16) { s.push('€'); }
        else { s.push((b'a' + r.below(26) as u8) as char); }
    }
    s
}

pub fn gen_msg(r: &mut Rng) -> M {
    match r.below(10) {
        0..=3 => {
            let nl = if r.chance(1, 3) { 0 } else { r.range(1, 63) as usize };
            M::Cr(create::Msg {
                sid: r.u32b(), init_cwnd: r.u32b(), mss: r.u32b(), src_ip: r.u32b(),
                src_port: r.u32b(), dst_ip: r.u32b(), dst_port: r.u32b(),
                cong_alg: if nl == 0 { None } else if r.chance(1, 6) {
                    Some((*r.pick(&["tcp_cubic", "tcp_reno", "tcp_bbr", "tcp_", "tcp", "TCP_vegas", "ccp_cubic", "cubic ", " reno", "reno\n", "Reno", "RENO", "réno",
                        // code points a decoder might single out: the replacement character, a byte-order mark, a control, the last one
                        "re\u{fffd}no", "\u{fffd}", "\u{feff}reno", "reno\u{7f}", "\u{10ffff}", "reno\u{200b}", "𝛼β窓"])).to_string())
                } else { Some(gen_name(r, nl)) },
            })
        }
        4..=8 => {
            let n = if r.chance(1, 4) { r.below(256) } else { r.below(12) } as usize;
            M::Ms(measure::Msg {
                sid: r.u32b(), program_uid: r.u32b(), num_fields: n as u8,
                fields: (0..n).map(|_| r.u64b()).collect(),
            })
        }
        _ => M::Rdy(ready::Msg { id: r.u32b() }),
    }
}

fn payload(r: &mut Rng, kind: u64, n: usize) -> Vec<u8> {
    match kind {
        0 => vec![0u8; n],
        1 => vec![0xffu8; n],
        2 => (0..n).map(|i| (i + 1) as u8).collect(),
        3 => {
            // letters with a NUL at a chosen position (or none)
            let mut v: Vec<u8> = (0..n).map(|i| b'A' + (i % 26) as u8).collect();
            if n > 0 && r.chance(3, 4) { let p = r.below(n as u64) as usize; v[p] = 0; }
            v
        }
        _ => r.bytes(n),
    }
}

fn emit(out: &mut dyn Write, cmd: &str, arg: &str, res: &str) {
    writeln!(out, "{}\t{}\t{}", cmd, arg, res).unwrap();
}

/// C04 stream: (type, declared length, actual length) grid with structured payloads, mutated
/// encodings of valid messages, raw random strings.
pub fn run_c04(tier: &str, seed: u64, out: &mut dyn Write) {
    let mut r = Rng::new(seed ^ 0xC04);
    let thorough = tier == "thorough";
    let types: Vec<u32> = {
        let mut t: Vec<u32> = (0..8).collect();
        t.extend([254, 255, 256, 257, 258, 261, 511, 512, 513, 0x100 + 5, 0xff00, 65535]);
        t
    };
    let act_lens: Vec<usize> = {
        let mut v: Vec<usize> = (0..=40).collect();
        v.extend([95, 96, 97, 104, 1023, 1024]);
        v
    };
    // exhaustive small grid: every type x declared 0..40 x actual 0..40, one payload each (rotating)
    let mut k = 0u64;
    for &t in &types {
        for dl in 0..=40usize {
            for al in 0..=40usize {
                if !thorough && (k % 3 != seed % 3) { k += 1; continue; }
                let mut buf = payload(&mut r, k % 5, al);
                put_hdr(&mut buf, t, dl as u32);
                emit(out, "frombuf", &hex(&buf), &frombuf_str(&buf));
                k += 1;
            }
        }
    }
    // creates longer than the encoder would make them: a name of 60..130 bytes before its NUL, ASCII or not
    for nl in [60usize, 62, 63, 64, 65, 66, 70, 100, 127, 128, 130] {
        for fill in [b'a', b'Z', 0xc3u8] {
            for extra in [0usize, 1, 5] {
                let mut buf = vec![0u8; 8];
                for w in 0..6u32 { buf.extend((0x0101_0101u32 * (w + 1)).to_le_bytes()); }
                buf.extend(std::iter::repeat(fill).take(nl)); buf.push(0); buf.extend(std::iter::repeat(b'q').take(extra));
                let total = buf.len() as u32;
                put_hdr(&mut buf, 0, total);
                emit(out, "frombuf", &hex(&buf), &frombuf_str(&buf));
            }
        }
    }
    // boundary declared lengths against larger actual lengths
    let n_rand = if thorough { 400_000 } else { 12_000 };
    for _ in 0..n_rand {
        let t = if r.chance(3, 4) { *r.pick(&types) } else { r.below(65536) as u32 };
        let al = *r.pick(&act_lens);
        let dl = match r.below(8) {
            0 => al as u32,
            1 => (al as u32).wrapping_sub(1) & 0xffff,
            2 => al as u32 + 1,
            3 => 65535,
            4 => r.below(41) as u32,
            5 => *r.pick(&[95u32, 96, 97, 32, 31, 33, 16, 15, 17, 12, 11, 8, 7]),
            _ => r.below(al as u64 + 2) as u32,
        };
        let kind = r.below(5);
        let mut buf = payload(&mut r, kind, al);
        put_hdr(&mut buf, t, dl);
        emit(out, "frombuf", &hex(&buf), &frombuf_str(&buf));
    }
    // mutated encodings of valid messages
    let n_mut = if thorough { 200_000 } else { 8_000 };
    for _ in 0..n_mut {
        let m = gen_msg(&mut r);
        let mut bs = match ser_m(&m) { Some(Ok(b)) => b, _ => continue };
        match r.below(6) {
            0 => { let i = r.below(bs.len() as u64) as usize; bs[i] ^= 1 << r.below(8); }
            1 => { let n = r.below(bs.len() as u64 + 1) as usize; bs.truncate(n); }
            2 => { let n = r.below(24) as usize; let e = r.bytes(n); bs.extend(e); }
            3 => { let i = r.below(bs.len() as u64) as usize; bs[i] = r.next() as u8; }
            4 => { // non-UTF-8 / odd bytes in the name area of a create
                if bs.len() == 96 { let i = 32 + r.below(64) as usize; bs[i] = *r.pick(&[0x80u8, 0xc0, 0xff, 0xe2, 0xf5, 0xc3]); } }
            _ => {}
        }
        emit(out, "frombuf", &hex(&bs), &frombuf_str(&bs));
    }
    // raw random strings
    let n_raw = if thorough { 100_000 } else { 3_000 };
    for _ in 0..n_raw {
        let n = if r.chance(1, 10) { r.below(1025) } else { r.below(64) } as usize;
        let b = r.bytes(n);
        emit(out, "frombuf", &hex(&b), &frombuf_str(&b));
    }
}

fn put_hdr(buf: &mut Vec<u8>, typ: u32, len: u32) {
    let h = [(typ & 0xff) as u8, (typ >> 8) as u8, (len & 0xff) as u8, (len >> 8) as u8];
    for (i, b) in h.iter().enumerate() { if i < buf.len() { buf[i] = *b; } }
}

/// C07 stream: round trips of in-range (and some out-of-range) messages; concatenations.
pub fn run_c07(tier: &str, seed: u64, out: &mut dyn Write) {
    let mut r = Rng::new(seed ^ 0xC07);
    let thorough = tier == "thorough";
    // all name lengths 0..=64 (64 and names with NUL are out of range; still compared with the model)
    for rep in 0..(if thorough { 20 } else { 3 }) {
        for nl in 0..=64usize {
            let name = if nl == 0 && rep % 2 == 0 { None } else { Some(gen_name(&mut r, nl)) };
            let m = M::Cr(create::Msg { sid: r.u32b(), init_cwnd: r.u32b(), mss: r.u32b(), src_ip: r.u32b(),
                src_port: r.u32b(), dst_ip: r.u32b(), dst_port: r.u32b(), cong_alg: name });
            emit(out, "rt", &m_str(&m), &rt_str(&m));
        }
        // all field counts 0..=255
        for n in 0..=255usize {
            let m = M::Ms(measure::Msg { sid: r.u32b(), program_uid: r.u32b(), num_fields: n as u8,
                fields: (0..n).map(|_| r.u64b()).collect() });
            emit(out, "rt", &m_str(&m), &rt_str(&m));
        }
        for _ in 0..16 { let m = M::Rdy(ready::Msg { id: r.u32b() }); emit(out, "rt", &m_str(&m), &rt_str(&m)); }
    }
    // out-of-range: count mismatch, NUL inside the name
    for _ in 0..(if thorough { 4000 } else { 300 }) {
        let n = r.below(20) as usize;
        let m = M::Ms(measure::Msg { sid: r.u32b(), program_uid: r.u32b(), num_fields: r.below(20) as u8,
            fields: (0..n).map(|_| r.u64b()).collect() });
        emit(out, "rt", &m_str(&m), &rt_str(&m));
        let nl = r.range(1, 63) as usize;
        let mut nm = gen_name(&mut r, nl).into_bytes();
        if r.chance(1, 2) { let p = r.below(nm.len() as u64) as usize; nm[p] = 0; }
        let m = M::Cr(create::Msg { sid: 1, init_cwnd: 2, mss: 3, src_ip: 4, src_port: 5, dst_ip: 6, dst_port: 7,
            cong_alg: Some(String::from_utf8_lossy(&nm).into_owned()) });
        emit(out, "rt", &m_str(&m), &rt_str(&m));
    }
    // concatenations of up to 8 messages
    for _ in 0..(if thorough { 30_000 } else { 1_500 }) {
        let k = r.range(1, 8);
        let ms: Vec<M> = (0..k).map(|_| gen_msg(&mut r)).collect();
        let arg = ms.iter().map(m_str).collect::<Vec<_>>().join(" ; ");
        emit(out, "concat", &arg, &concat_ms(&ms));
    }
}

pub fn concat_ms(ms: &[M]) -> String {
    let mut buf = vec![];
    for m in ms {
        match ser_m(m) { Some(Ok(b)) => buf.extend(b), Some(Err(_)) => return "SERFAIL".into(), None => return "PANIC".into() }
    }
    decodeall_str(&buf)
}

pub fn concat_eval(arg: &str) -> String {
    let ms: Option<Vec<M>> = arg.split(" ; ").map(parse_m).collect();
    match ms { Some(ms) => concat_ms(&ms), None => "UNPARSABLE".into() }
}

fn hx32(s: &str) -> Option<u32> { u32::from_str_radix(s, 16).ok() }
pub fn parse_m(s: &str) -> Option<M> {
    let t: Vec<&str> = s.split_whitespace().collect();
    match t.as_slice() {
        ["CR", sid, cw, mss, sip, sp, dip, dp, alg] => Some(M::Cr(create::Msg {
            sid: hx32(sid)?, init_cwnd: hx32(cw)?, mss: hx32(mss)?, src_ip: hx32(sip)?, src_port: hx32(sp)?,
            dst_ip: hx32(dip)?, dst_port: hx32(dp)?,
            cong_alg: if *alg == "-" { None } else { Some(String::from_utf8(unhex_raw(&alg[2..])).ok()?) },
        })),
        ["MS", sid, uid, nf, fs] => Some(M::Ms(measure::Msg {
            sid: hx32(sid)?, program_uid: hx32(uid)?, num_fields: u8::from_str_radix(nf, 16).ok()?,
            fields: if *fs == "-" { vec![] } else { fs.split(',').map(|x| u64::from_str_radix(x, 16).ok()).collect::<Option<Vec<_>>>()? },
        })),
        ["RDY", id] => Some(M::Rdy(ready::Msg { id: hx32(id)? })),
        _ => None,
    }
}
fn unhex_raw(s: &str) -> Vec<u8> { if s.is_empty() { vec![] } else { unhex(s) } }
