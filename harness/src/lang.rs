//! Compiler streams: run portus::lang::compile_and_serialize on generated sources and print the
//! image plus the scope's answer for every candidate name.
use crate::rng::Rng;
use crate::util::*;
use portus::lang::{Reg, Scope, Type};
use std::io::Write;

pub fn type_str(t: &Type) -> String {
    match t {
        Type::Bool(None) => "b-".into(),
        Type::Bool(Some(b)) => format!("b{}", *b as u8),
        Type::Num(None) => "n-".into(),
        Type::Num(Some(n)) => format!("n{:x}", n),
        Type::Name(s) => format!("N{}", hex_raw(s.as_bytes())),
        Type::None => "_".into(),
    }
}
pub fn reg_full(r: &Reg) -> String {
    match r {
        Reg::Control(i, t, v) => format!("C{}{}:{}", i, if *v { "v" } else { "" }, type_str(t)),
        Reg::Report(i, t, v) => format!("R{}{}:{}", i, if *v { "v" } else { "" }, type_str(t)),
        Reg::Implicit(i, t) => format!("I{}:{}", i, type_str(t)),
        Reg::Local(i, t) => format!("L{}:{}", i, type_str(t)),
        Reg::Primitive(i, t) => format!("P{}:{}", i, type_str(t)),
        Reg::Tmp(i, t) => format!("T{}:{}", i, type_str(t)),
        Reg::ImmNum(n) => format!("N{:x}", n),
        Reg::ImmBool(b) => format!("B{}", *b as u8),
        Reg::None => "X".into(),
    }
}

fn is_name_char(c: char) -> bool {
    let b = (c as u32 & 0xff) as u8;
    b.is_ascii_alphanumeric() || c == '.' || c == '_'
}

/// names worth looking up: every maximal run of name characters in the text, the same with the
/// Report. prefix, and a few built-ins
pub fn candidate_names(src: &[u8]) -> Vec<String> {
    let mut v: Vec<String> = vec![];
    if let Ok(s) = std::str::from_utf8(src) {
        let mut cur = String::new();
        for c in s.chars().chain(std::iter::once(' ')) {
            if is_name_char(c) { cur.push(c); } else if !cur.is_empty() {
                if cur.len() <= 40 && !cur.chars().all(|c| c.is_ascii_digit()) {
                    for cand in [cur.clone(), format!("Report.{}", cur)] { if !v.contains(&cand) && v.len() < 140 { v.push(cand); } }
                }
                cur.clear();
            }
        }
    }
    for b in ["Cwnd", "Micros", "Ack.bytes_acked", "Flow.was_timeout", "__eventFlag", "__shouldReport", "Rate"] {
        if !v.contains(&b.to_string()) { v.push(b.to_string()); }
    }
    v
}

pub fn compile_str(src: &[u8], ups: &[(String, u32)], names: &[String]) -> String {
    let u: Vec<(&str, u32)> = ups.iter().map(|(n, v)| (n.as_str(), *v)).collect();
    // compile, then serialize (what compile_and_serialize does), keeping the event count
    // the compiler runs on its own thread under a time limit: a compilation that does not come back is a result too
    let (tx, rx) = std::sync::mpsc::channel();
    let srcv = src.to_vec();
    let upsv: Vec<(String, u32)> = ups.to_vec();
    let namesv: Vec<String> = names.to_vec();
    std::thread::Builder::new().stack_size(64 << 20).spawn(move || {
        let u: Vec<(&str, u32)> = upsv.iter().map(|(n, v)| (n.as_str(), *v)).collect();
        let r = match catch(|| portus::lang::compile(&srcv, &u).and_then(|(b, s)| { let n = b.events.len(); Ok((n, b.serialize()?, s)) })) {
            None => "PANIC".to_string(),
            Some(Err(_)) => "ERR".to_string(),
            Some(Ok((nev, img, sc))) => format!("OK {} {} {}", nev, hex(&img), scope_str(&sc, &namesv)),
        };
        let _ = tx.send(r);
    }).expect("spawn");
    let limit = std::env::var("HARNESS_CASE_TIMEOUT_MS").ok().and_then(|v| v.parse().ok()).unwrap_or(20_000u64);
    let _ = u;
    match rx.recv_timeout(std::time::Duration::from_millis(limit)) {
        Ok(r) => r,
        Err(_) => { TIMED_OUT.store(true, std::sync::atomic::Ordering::SeqCst); "TIMEOUT".into() }
    }
}
/// set when a compilation did not return within the limit: the stream stops after reporting that case
/// (the runaway thread keeps a core busy)
pub static TIMED_OUT: std::sync::atomic::AtomicBool = std::sync::atomic::AtomicBool::new(false);
pub fn scope_str(sc: &Scope, names: &[String]) -> String {
    if names.is_empty() { return "-".into(); }
    names.iter().map(|n| sc.get(n).map(reg_full).unwrap_or_else(|| "-".into())).collect::<Vec<_>>().join(",")
}

pub fn arg_str(src: &[u8], ups: &[(String, u32)], names: &[String]) -> String {
    format!("{} {} {}", hex(src),
        if ups.is_empty() { "-".to_string() } else { ups.iter().map(|(n, v)| format!("{}={:x}", hex_raw(n.as_bytes()), v)).collect::<Vec<_>>().join(",") },
        if names.is_empty() { "-".to_string() } else { names.iter().map(|n| if n.is_empty() { "00".to_string() } else { hex_raw(n.as_bytes()) }).collect::<Vec<_>>().join(",") })
}

pub fn eval(arg: &str) -> String {
    let t: Vec<&str> = arg.split(' ').collect();
    if t.len() != 3 { return "UNPARSABLE".into(); }
    let src = unhex(t[0]);
    let ups: Vec<(String, u32)> = if t[1] == "-" { vec![] } else {
        match t[1].split(',').map(|kv| { let (k, v) = kv.split_once('=')?; Some((String::from_utf8(unhex(k)).ok()?, u32::from_str_radix(v, 16).ok()?)) }).collect::<Option<Vec<_>>>() {
            Some(u) => u, None => return "UNPARSABLE".into() } };
    let names: Vec<String> = if t[2] == "-" { vec![] } else {
        match t[2].split(',').map(|h| String::from_utf8(unhex(h)).ok()).collect::<Option<Vec<_>>>() { Some(n) => n, None => return "UNPARSABLE".into() } };
    compile_str(&src, &ups, &names)
}

pub fn emit(out: &mut dyn Write, src: &[u8], ups: &[(String, u32)]) {
    let names = candidate_names(src);
    writeln!(out, "compile\t{}\t{}", arg_str(src, ups, &names), compile_str(src, ups, &names)).unwrap();
    stop_if_timed_out(out);
}

pub fn stop_if_timed_out(out: &mut dyn Write) {
    if TIMED_OUT.load(std::sync::atomic::Ordering::SeqCst) { out.flush().unwrap(); std::process::exit(0); }
}

// ------------------------------------------------------------------ grammar-based generation

pub struct GenCfg { pub well_typed: bool, pub max_depth: u32 }

const PRIMS: [&str; 8] = ["Ack.bytes_acked", "Ack.lost_pkts_sample", "Flow.rtt_sample_us", "Flow.rate_outgoing", "Ack.now", "Flow.bytes_in_flight", "Ack.packets_acked", "Flow.packets_in_flight"];
const NUM_OPS: [(&str, &str); 7] = [("+", "add"), ("-", "sub"), ("*", "mul"), ("/", "div"), ("max", "max"), ("min", "min"), ("wrapped_max", "wrapped_max")];
const CMP_OPS: [(&str, &str); 3] = [(">", "gt"), ("<", "lt"), ("==", "eq")];
const BOOL_OPS: [(&str, &str); 2] = [("&&", "and"), ("||", "or")];

pub struct Vars { pub reports: Vec<(String, bool, bool)>, pub controls: Vec<(String, bool, bool)>, pub locals: Vec<(String, bool)> } // (name, is_bool, volatile)

fn pick_op<'a>(r: &mut Rng, ops: &'a [(&'a str, &'a str)]) -> &'a str { let o = r.pick(ops); if r.chance(2, 3) { o.0 } else { o.1 } }

fn lit_num(r: &mut Rng) -> String {
    match r.below(12) {
        0 => "0".into(), 1 => "1".into(), 2 => "+infinity".into(), 3 => format!("{}", (1u64 << 31) - 1),
        4 => format!("{}", r.below(100)), 5 => format!("{}", 0x3fff_ffffu64), 6 => format!("{}", r.below(1 << 31)),
        _ => format!("{}", r.below(100_000)),
    }
}

pub fn gen_num(r: &mut Rng, v: &Vars, depth: u32) -> String {
    if depth == 0 || r.chance(2, 5) {
        let mut pool: Vec<String> = vec![];
        for (n, b, _) in v.reports.iter().chain(v.controls.iter()) { if !*b { pool.push(n.clone()); } }
        for (n, b) in &v.locals { if !*b { pool.push(n.clone()); } }
        match r.below(4) {
            0 => lit_num(r),
            1 => r.pick(&PRIMS).to_string(),
            2 => (*r.pick(&["Micros", "Cwnd", "Rate"])).to_string(),
            _ => if pool.is_empty() { lit_num(r) } else { r.pick(&pool).clone() },
        }
    } else if r.chance(1, 12) {
        // a bind used for its value: (:= target e) as an operand
        let mut pool: Vec<String> = vec![];
        for (n, b, _) in v.reports.iter().chain(v.controls.iter()) { if !*b { pool.push(n.clone()); } }
        for (n, b) in &v.locals { if !*b { pool.push(n.clone()); } }
        if pool.is_empty() { return lit_num(r); }
        let t = r.pick(&pool).clone();
        format!("({} {} {})", bind_kw(r), t, gen_num(r, v, depth - 1))
    } else {
        let l = gen_num(r, v, depth - 1);
        let d2 = if r.chance(1, 2) { depth - 1 } else { 0 };
        let rr = gen_num(r, v, d2);
        format!("({} {} {})", pick_op(r, &NUM_OPS), l, rr)
    }
}

pub fn gen_bool(r: &mut Rng, v: &Vars, depth: u32) -> String {
    if depth == 0 || r.chance(1, 4) {
        let mut pool: Vec<String> = vec!["Flow.was_timeout".into()];
        for (n, b, _) in v.reports.iter().chain(v.controls.iter()) { if *b { pool.push(n.clone()); } }
        for (n, b) in &v.locals { if *b { pool.push(n.clone()); } }
        match r.below(3) { 0 => (*r.pick(&["true", "false"])).to_string(), _ => r.pick(&pool).clone() }
    } else if r.chance(2, 3) {
        format!("({} {} {})", pick_op(r, &CMP_OPS), gen_num(r, v, depth - 1), gen_num(r, v, depth - 1))
    } else {
        format!("({} {} {})", pick_op(r, &BOOL_OPS), gen_bool(r, v, depth - 1), gen_bool(r, v, depth - 1))
    }
}

fn bind_kw(r: &mut Rng) -> &'static str { if r.chance(2, 3) { ":=" } else { "bind" } }

pub fn gen_stmt(r: &mut Rng, v: &mut Vars, depth: u32) -> String {
    let k = r.below(12);
    match k {
        0 => "(report)".into(),
        1 => "(fallthrough)".into(),
        2 | 3 => {
            // conditional / ewma bound to a report or control variable
            let mut pool: Vec<(String, bool)> = v.reports.iter().chain(v.controls.iter()).map(|(n, b, _)| (n.clone(), *b)).collect();
            if pool.is_empty() { pool.push(("Cwnd".into(), false)); }
            let (mut t, is_b) = r.pick(&pool).clone();
            if t == "Cwnd" && !r.chance(1, 3) { return format!("({} Cwnd {})", bind_kw(r), gen_num(r, v, depth)); }
            // now and then the target is of a class that cannot hold a conditional: a primitive, an implicit
            // register, a literal, a local, an undeclared name
            if r.chance(1, 12) { t = (*r.pick(&["Flow.rtt_sample_us", "Ack.bytes_acked", "Flow.was_timeout", "Micros", "Rate", "Cwnd", "5", "true", "l0", "nosuch", "+infinity"])).to_string(); }
            match r.below(3) {
                0 => format!("({} {} (if {} {}))", bind_kw(r), t, gen_bool(r, v, 1), if is_b { gen_bool(r, v, depth) } else { gen_num(r, v, depth) }),
                1 => format!("({} {} (!if {} {}))", bind_kw(r), t, gen_bool(r, v, 1), if is_b { gen_bool(r, v, depth) } else { gen_num(r, v, depth) }),
                _ => if is_b { format!("({} {} {})", bind_kw(r), t, gen_bool(r, v, depth)) } else { format!("({} {} (ewma {} {}))", bind_kw(r), t, r.range(0, 10), gen_num(r, v, depth)) },
            }
        }
        4 if r.chance(1, 12) => {
            // the target of a bind is itself a bind: (:= (:= x e1) e2)
            let mut pool: Vec<String> = vec![];
            for (n, b, _) in v.reports.iter().chain(v.controls.iter()) { if !*b { pool.push(n.clone()); } }
            if pool.is_empty() { return "(report)".into(); }
            let t = r.pick(&pool).clone();
            format!("({} ({} {} {}) {})", bind_kw(r), bind_kw(r), t, gen_num(r, v, 1), gen_num(r, v, depth))
        }
        4 => {
            // bind a (possibly new) local
            let fresh = v.locals.len() < 5 && r.chance(1, 2);
            if fresh {
                let is_b = r.chance(1, 4);
                let n = format!("l{}", v.locals.len());
                let e = if is_b { gen_bool(r, v, depth) } else { gen_num(r, v, depth) };
                v.locals.push((n.clone(), is_b));
                format!("({} {} {})", bind_kw(r), n, e)
            } else if let Some((n, is_b)) = v.locals.get(r.below(v.locals.len().max(1) as u64) as usize).cloned() {
                format!("({} {} {})", bind_kw(r), n, if is_b { gen_bool(r, v, depth) } else { gen_num(r, v, depth) })
            } else { format!("({} Rate {})", bind_kw(r), gen_num(r, v, depth)) }
        }
        5 => format!("({} {} {})", bind_kw(r), r.pick(&["Cwnd", "Rate", "Micros"]), gen_num(r, v, depth)),
        _ => {
            let pool: Vec<(String, bool)> = v.reports.iter().chain(v.controls.iter()).map(|(n, b, _)| (n.clone(), *b)).collect();
            if pool.is_empty() { return format!("({} Cwnd {})", bind_kw(r), gen_num(r, v, depth)); }
            let (t, is_b) = r.pick(&pool).clone();
            format!("({} {} {})", bind_kw(r), t, if is_b { gen_bool(r, v, depth) } else { gen_num(r, v, depth) })
        }
    }
}

fn init_val(r: &mut Rng, is_b: bool) -> String { if is_b { (*r.pick(&["true", "false"])).to_string() } else { lit_num(r) } }

/// A mostly well-typed program of the documented grammar; returns (source, declared names).
pub fn gen_prog(r: &mut Rng, depth: u32) -> (String, Vars) {
    let mut v = Vars { reports: vec![], controls: vec![], locals: vec![] };
    let nrep = if r.chance(1, 12) { r.range(14, 17) } else { r.below(5) } as usize;
    let nctl = if r.chance(1, 12) { r.range(14, 17) } else { r.below(4) } as usize;
    let mut struct_decls = vec![];
    let mut legacy = vec![];
    let mut ctl_decls = vec![];
    let use_struct = r.chance(2, 3);
    for i in 0..nrep {
        let is_b = r.chance(1, 6);
        let vol = r.chance(1, 2);
        let base = format!("{}{}", r.pick(&["r", "acked", "rtt", "loss", "x", "volatility", "Report", "Flow.rtt", "rtt.min", "a.b.c", "Control.x", "R", "ACKED", "volatile_x", "whenx", "defx", "trueish"]), i);
        let full = format!("Report.{}", base);
        let d = format!("({}{} {})", if vol { "volatile " } else { "" }, if use_struct && r.chance(3, 4) { base.clone() } else { full.clone() }, init_val(r, is_b));
        if d.contains("Report.") { legacy.push(d); } else { struct_decls.push(d); }
        v.reports.push((full, is_b, vol));
    }
    for i in 0..nctl {
        let is_b = r.chance(1, 6);
        let vol = r.chance(1, 3);
        let n = format!("{}{}", if r.chance(1, 40) { "truex" } else { *r.pick(&["c", "state", "thresh", "k", "volatilec", "Control.", "Reported", "Report_", "C", "STATE", "Thresh", "x.Report.y", "Ack.mine", "volatile_c", "ifx", "reportx"]) }, i);
        ctl_decls.push(format!("({}{} {})", if vol { "volatile " } else { "" }, n, init_val(r, is_b)));
        v.controls.push((n, is_b, vol));
    }
    // two names that differ only in case, declared together (a lookup must not confuse them)
    if r.chance(1, 8) && nctl + 2 <= 16 {
        let (a, b) = *r.pick(&[("Limit", "limit"), ("RTT", "Rtt"), ("k", "K"), ("cap", "Cap")]);
        for n in [a, b] { ctl_decls.push(format!("({} {})", n, lit_num(r))); v.controls.push((n.to_string(), false, false)); }
    }
    // now and then a declaration whose initial value is not a literal (a name): it gets a register
    // but no initialisation instruction; it is not used by the statements generated below
    if r.chance(1, 6) {
        for i in 0..r.range(1, 2) {
            let init = *r.pick(&["unset", "undefined", "c0", "Cwnd"]);
            if r.chance(1, 2) { ctl_decls.push(format!("({}cap{} {})", if r.chance(1, 3) { "volatile " } else { "" }, i, init)); }
            else if use_struct && r.chance(1, 2) { struct_decls.push(format!("({}hole{} {})", if r.chance(1, 3) { "volatile " } else { "" }, i, init)); }
            else { legacy.push(format!("(Report.hole{} {})", i, init)); }
        }
    }
    // now and then a declaration named like a datapath register, or like a literal (the name slot takes whatever the
    // name parser takes); the statements generated below do not use it
    if r.chance(1, 10) {
        let n = *r.pick(&["Cwnd", "Rate", "Micros", "Ack.bytes_acked", "Flow.rtt_sample_us", "Flow.was_timeout", "7", "true", "false", "0", "+infinity", "007", "Report", "when", "def", "volatile7"]);
        let d = format!("({}{} {})", if r.chance(1, 3) { "volatile " } else { "" }, n, lit_num(r));
        if use_struct && r.chance(1, 3) { struct_decls.push(d); } else { ctl_decls.push(d); }
    }
    // declaration order: control/legacy before, struct, control/legacy after
    let mut before = vec![]; let mut after = vec![];
    for d in ctl_decls.into_iter().chain(legacy) { if r.chance(1, 2) { before.push(d); } else { after.push(d); } }
    let mut def = String::from("(def");
    for d in &before { def.push(' '); def.push_str(d); }
    if !struct_decls.is_empty() { def.push_str(" (Report"); for d in &struct_decls { def.push(' '); def.push_str(d); } def.push(')'); }
    for d in &after { def.push(' '); def.push_str(d); }
    def.push(')');
    let nev = r.range(1, 4);
    let mut src = def;
    for _ in 0..nev {
        let cond = if r.chance(1, 4) { (*r.pick(&["true", "false"])).to_string() } else {
            let c = gen_bool(r, &v, depth.min(2));
            if c.starts_with('(') { c } else { "true".to_string() } };
        let cond = if r.chance(1, 30) && cond.starts_with('(') { format!("({} {} {})", bind_kw(r), cond, r.pick(&["true", "false"])) } else { cond };
        // a local that is first bound inside a condition (and lives on: later statements and events may read it)
        let cond = if r.chance(1, 12) && v.locals.len() < 5 {
            let n = format!("cl{}", v.locals.len());
            let e = gen_num(r, &v, 1);
            v.locals.push((n.clone(), false));
            match r.below(3) {
                0 => format!("(> ({} {} {}) {})", bind_kw(r), n, e, r.below(2000)),
                1 => format!("(&& (< {} ({} {} {})) {})", r.below(50), bind_kw(r), n, e, if cond.starts_with('(') { cond.clone() } else { "(== 1 1)".to_string() }),
                _ => format!("(|| {} (== ({} {} {}) 0))", if cond.starts_with('(') { cond.clone() } else { "(== 1 2)".to_string() }, bind_kw(r), n, e),
            }
        } else { cond };
        src.push_str(&format!("\n(when {}", cond));
        if r.chance(1, 20) {
            // an event whose body is only comments: when its condition holds it still ends the invocation
            src.push_str(if r.chance(1, 3) { "\n  # rien à faire ici (report)\n" } else { "\n  # nothing to do here\n" }); if r.chance(1, 2) { src.push_str("  #\n"); }
            src.push(')');
            continue;
        }
        let ns = r.range(1, 5);
        let mut last = String::new();
        for _ in 0..ns {
            // now and then the same statement twice in a row (an optimiser must not merge them)
            let st = if !last.is_empty() && r.chance(1, 8) { last.clone() } else if r.chance(1, 12) { (*r.pick(&["(report)", "(fallthrough)"])).to_string() } else { gen_stmt(r, &mut v, depth) };
            src.push_str("\n  "); src.push_str(&st); last = st;
        }
        src.push(')');
    }
    (src, v)
}

pub fn run_compile_basic(tier: &str, seed: u64, out: &mut dyn Write) {
    let mut r = Rng::new(seed ^ 0xC01A);
    let n = if tier == "thorough" { 60_000 } else { 3_000 };
    for (_, src) in crate::runtime::PROGS.iter() { emit(out, src.as_bytes(), &[]); }
    for _ in 0..n {
        let (src, v) = gen_prog(&mut r, 3);
        let mut ups = vec![];
        if r.chance(1, 4) {
            for _ in 0..r.range(1, 3) {
                let pool: Vec<String> = v.reports.iter().chain(v.controls.iter()).map(|x| x.0.clone()).chain(v.locals.iter().map(|x| x.0.clone())).chain(["Cwnd".to_string(), "nosuch".to_string()]).collect();
                ups.push((r.pick(&pool).clone(), r.u32b()));
            }
        }
        emit(out, src.as_bytes(), &ups);
    }
}

// ------------------------------------------------------------------ further streams

pub fn fnv64(s: &str) -> String {
    let mut h: u64 = 0xcbf29ce484222325;
    for b in s.bytes() { h = (h ^ b as u64).wrapping_mul(0x100000001b3); }
    format!("{:016x}", h)
}

fn emit_param(out: &mut dyn Write, param: &str, src: &[u8], ups: &[(String, u32)], names: &[String]) {
    writeln!(out, "compile:{}\t{}\t{}", param, arg_str(src, ups, names), compile_str(src, ups, names)).unwrap();
    stop_if_timed_out(out);
}

const TOKENS: [&str; 26] = ["(", ")", "def", "when", "Report", "volatile", "report", "fallthrough", ":=", "+", "if", "!if", "ewma", "||", "-", "true",
    "7", "99999999999999999999999", "x", "Report.x", "c", "__r", "# c\n", "\n", "Cwnd", "undeclared"];

/// C10: token sequences (raw and inside a valid skeleton), ill-placed constructs injected into
/// valid programs at every position, byte-level mutations, raw random bytes, deep nesting.
pub fn run_c10(tier: &str, seed: u64, out: &mut dyn Write) {
    let mut r = Rng::new(seed ^ 0xC10);
    let thorough = tier == "thorough";
    let nt = TOKENS.len();
    // exhaustive short sequences, raw and in the holes of a skeleton
    let maxlen = if thorough { 4 } else { 3 };
    let mut seqs: Vec<Vec<usize>> = vec![vec![]];
    let mut frontier: Vec<Vec<usize>> = vec![vec![]];
    for _ in 0..maxlen {
        let mut next = vec![];
        for s in &frontier { for t in 0..nt { let mut n = s.clone(); n.push(t); next.push(n); } }
        seqs.extend(next.iter().cloned());
        frontier = next;
    }
    for s in &seqs {
        let txt = s.iter().map(|t| TOKENS[*t]).collect::<Vec<_>>().join(" ");
        if s.len() <= (if thorough { 4 } else { 2 }) || r.chance(1, if thorough { 1 } else { 6 }) { emit(out, txt.as_bytes(), &[]); }
        // as the condition and as a statement of an otherwise valid program
        if s.len() >= 1 && s.len() <= (if thorough { 3 } else { 2 }) {
            emit(out, format!("(def (Report (x 0)) (c 1)) (when {} (:= Report.x 1))", txt).as_bytes(), &[]);
            emit(out, format!("(def (Report (x 0)) (c 1)) (when true {})", txt).as_bytes(), &[]);
            emit(out, format!("(def {}) (when true (report))", txt).as_bytes(), &[]);
            emit(out, format!("(def (Report (x 0)) (c 1)) (when true (:= Report.x {}))", txt).as_bytes(), &[]);
            emit(out, format!("(def (Report (x 0)) (c 1)) (when true (:= c (+ {} 1)))", txt).as_bytes(), &[]);
        }
    }
    // undeclared locals bound to each other in chains and rings, then given a value (type resolution must end)
    for k in 1..=5usize {
        for ring in [false, true] {
            for tail in ["(:= a0 1)", "(:= a0 true)", "(:= Report.x a0)", "(:= a0 (+ a0 1))", ""] {
                let mut body = String::new();
                for i in 0..k { let j = if i + 1 < k { i + 1 } else if ring { 0 } else { k }; body.push_str(&format!("(:= a{} a{}) ", i, j)); }
                emit(out, format!("(def (Report (x 0))) (when true {}{} (report))", body, tail).as_bytes(), &[]);
                emit(out, format!("(def (Report (x 0))) (when true {} (report)) (when true {} (report))", body, tail).as_bytes(), &[]);
            }
        }
    }
    // text the parser stops at, with a multi-byte character placed at every offset around the sizes
    // at which an error message might cut the remainder (the cut must not land inside the character)
    for prefix in ["(def (c 1)) (when true (report)) ", "(def (c 1)) ", "", "(def (c 1)) (when true (report)) # note\n"] {
        for stop in ["(wen true (report))", "(when (report))", ")", "(when true (:= c (+ 1)) "] {
            for boundary in [8usize, 16, 20, 32, 40, 48, 64, 80, 100, 120, 128, 200, 255, 256, 512] {
                for ch in ["µ", "€", "𝛼"] {
                    for shift in 0..ch.len() {
                        let mut rest = String::from(stop);
                        if rest.len() + shift > boundary { continue; }
                        while rest.len() + shift < boundary { rest.push(if rest.len() % 7 == 0 { ' ' } else { 'x' }); }
                        // the character starts `shift` bytes before the boundary
                        rest.push_str(ch); rest.push_str(" # tail µs €\n (when true (report))");
                        emit(out, format!("{}{}", prefix, rest).as_bytes(), &[]);
                    }
                }
            }
        }
    }
    // random longer sequences
    for _ in 0..(if thorough { 200_000 } else { 8_000 }) {
        let n = r.range(4, 12);
        let txt = (0..n).map(|_| *r.pick(&TOKENS)).collect::<Vec<_>>().join(" ");
        emit(out, txt.as_bytes(), &[]);
    }
    // valid programs with one token replaced / inserted / deleted at a position
    for _ in 0..(if thorough { 20_000 } else { 1_200 }) {
        let (src, _) = gen_prog(&mut r, 2);
        let toks = tokenize(&src);
        for _ in 0..4 {
            let mut t = toks.clone();
            let i = r.below(t.len() as u64) as usize;
            match r.below(3) {
                0 => { t[i] = r.pick(&TOKENS).to_string(); }
                1 => { t.insert(i, r.pick(&TOKENS).to_string()); }
                _ => { t.remove(i); }
            }
            emit(out, t.join(" ").as_bytes(), &[]);
        }
    }
    // ill-placed constructs
    for s in ["(def) (when true (if true 1))", "(def (Report (x 0))) (when true (:= Cwnd (if true 1)))", "(def (Report (x 0))) (when true (:= Report.x (if true (if false 2))))",
        "(def (Report (x 0))) (when (report) (report))", "(def (Report (x 0))) (when Report.x (report))", "(def (Report (x 0))) (when # c\n true (report))",
        "(def (Report (x 0))) (when true # c\n (:= Report.x 1))", "(def (Report (x 0))) (when true (:= l (ewma 2 3)))", "(def (Report (x 0))) (when true (:= Report.x (+ (if true 1) 2)))",
        "(def (Report (x 0))) (when true (:= Report.x (+ 2 (if true 1))))", "(def (Report (x 0))) (when (fallthrough) (report))", "(def (Report (x 0))) (when x (report))",
        "( def (Report (x 0))) (when true (report))", "(def ) (when true (report))", "(def (volatility 0)) (when true (:= volatility 1))", "(def (volatile x 0)) (when true (:= x 1))",
        "(def (Report (x 0)))", "(when true (report))", "", "(", ")", "(def (x 18446744073709551616)) (when true (report))", "(def (x 0)) (when true (:= x 18446744073709551616))",
        "(def (x 0)) (when true (:= x 18446744073709551615))", "(def (x 0)) (when true (:= 5 x))", "(def (x 0)) (when true (:= Ack.bytes_acked x))", "(def (x 0)) (when true (:= x (+ y 1)))",
        "(def (x 0)) (when true (:= y (+ x 1)) (:= x y))", "(def (x 0)) (when true (:= y true) (:= x (+ y 1)))", "(def (x true)) (when x (:= x false))", "(def (x true)) (when (&& x true) (:= x false))"] {
        emit(out, s.as_bytes(), &[]);
    }
    // counter limits
    for n in [15usize, 16, 17, 254, 255, 256, 257, 300] {
        let decls = (0..n).map(|i| format!("(v{} {})", i, i)).collect::<Vec<_>>().join(" ");
        emit(out, format!("(def {}) (when true (report))", decls).as_bytes(), &[]);
        emit(out, format!("(def (Report {})) (when true (report))", decls).as_bytes(), &[]);
        let binds = (0..n).map(|i| format!("(:= l{} {})", i, i)).collect::<Vec<_>>().join(" ");
        emit(out, format!("(def) (when true {})", binds).as_bytes(), &[]);
    }
    // deep nesting (bounded at 64) and long operator chains
    for d in [1usize, 2, 7, 8, 9, 10, 16, 17, 32, 64] {
        let mut e = String::from("1");
        for _ in 0..d { e = format!("(+ 1 {})", e); }
        emit(out, format!("(def (x 0)) (when true (:= x {}))", e).as_bytes(), &[]);
        let mut e = String::from("1");
        for _ in 0..d { e = format!("(+ {} 1)", e); }
        emit(out, format!("(def (x 0)) (when true (:= x {}))", e).as_bytes(), &[]);
        emit(out, format!("{}{}", "(".repeat(d), ")".repeat(d)).as_bytes(), &[]);
        emit(out, format!("(def (x 0)) (when {}true{} (report))", "(&& true ".repeat(d), ")".repeat(d)).as_bytes(), &[]);
    }
    // byte-level mutations of valid programs (incl. invalid UTF-8, non-ASCII letters whose low byte is alphanumeric)
    for _ in 0..(if thorough { 100_000 } else { 6_000 }) {
        let (src, _) = gen_prog(&mut r, 2);
        let mut b = src.into_bytes();
        for _ in 0..r.range(1, 3) {
            let i = r.below(b.len() as u64) as usize;
            match r.below(8) {
                0 => { b[i] = r.next() as u8; }
                1 => { b.remove(i); }
                2 => { let c = *r.pick(&[b'(', b')', b' ', b'#', b'\n', b'0', b'_', b'.', b'+', b'\t', b'\r']); b.insert(i, c); }
                3 => { for c in "ŧ".bytes().rev() { b.insert(i, c); } }          // U+0167: low byte 0x67 'g'
                4 => { for c in "１".bytes().rev() { b.insert(i, c); } }         // U+FF11 fullwidth digit one: low byte 0x11
                5 => { b[i] = *r.pick(&[0x80u8, 0xff, 0xc3, 0xe2, 0xf0]); }
                6 => { let n = r.below(b.len() as u64 + 1) as usize; b.truncate(n.max(1)); }
                _ => { b[i] ^= 1 << r.below(8); }
            }
            if b.is_empty() { b.push(b'('); }
        }
        emit(out, &b, &[]);
    }
    for _ in 0..(if thorough { 50_000 } else { 3_000 }) {
        let n = r.below(60) as usize;
        let b: Vec<u8> = if r.chance(1, 2) { r.bytes(n) } else { (0..n).map(|_| *r.pick(b"() defwhnRport:=+-*/<>!|&#\n\t 019_.axy")).collect() };
        emit(out, &b, &[]);
    }
}

pub fn tokenize(src: &str) -> Vec<String> {
    let mut v = vec![]; let mut cur = String::new();
    let mut comment = false;
    for c in src.chars() {
        // a comment is one token, from '#' to the end of its line (the newline belongs to it)
        if comment { cur.push(c); if c == '\n' { v.push(cur.clone()); cur.clear(); comment = false; } continue; }
        if c == '#' && cur.is_empty() { comment = true; cur.push(c); continue; }
        if c == '(' || c == ')' { if !cur.is_empty() { v.push(cur.clone()); cur.clear(); } v.push(c.to_string()); }
        else if c.is_whitespace() { if !cur.is_empty() { v.push(cur.clone()); cur.clear(); } }
        else { cur.push(c); }
    }
    if !cur.is_empty() { v.push(cur); }
    v
}

/// C14: decimal literals in definition, operand and override position.
pub fn run_c14(tier: &str, seed: u64, out: &mut dyn Write) {
    let mut r = Rng::new(seed ^ 0xC14);
    let thorough = tier == "thorough";
    let mut lits: Vec<String> = vec![];
    // exhaustive 0..2^16 (thorough) or a stride through it (quick)
    let stride = if thorough { 1 } else { 53 };
    let mut i = 0u64; while i < 65536 { lits.push(i.to_string()); i += stride; }
    lits.push("65535".into());
    // 2^k-1, 2^k, 2^k+1 for k <= 70 (as exact decimal strings via u128)
    for k in 0..=70u32 { let p: u128 = 1u128 << k; for d in [p - 1, p, p + 1] { lits.push(d.to_string()); } }
    // 20- to 30-digit numerals
    for n in 20..=30 { lits.push("9".repeat(n)); lits.push(format!("1{}", "0".repeat(n - 1))); lits.push(format!("18446744073709551615{}", "0".repeat(n - 20))); }
    lits.push("18446744073709551614".into()); lits.push("18446744073709551615".into()); lits.push("18446744073709551616".into());
    lits.push("00000000000000000000000000000007".into()); lits.push("007".into()); lits.push("1073741823".into());
    for _ in 0..(if thorough { 20_000 } else { 1_500 }) {
        lits.push(match r.below(4) { 0 => r.below(1 << 31).to_string(), 1 => (r.next() as u32).to_string(), 2 => r.next().to_string(), _ => format!("{}{}", r.next(), r.below(1000)) });
    }
    for l in &lits {
        let names = vec!["x".to_string(), "Report.y".to_string(), l.clone()];
        // definition position (control and report), operand position (bind value, operand of +)
        emit_param(out, &format!("lit={}", l), format!("(def (x {}) (Report (y 1))) (when true (report))", l).as_bytes(), &[], &names);
        emit_param(out, &format!("lit={}", l), format!("(def (x 0) (Report (volatile y {}))) (when true (report))", l).as_bytes(), &[], &names);
        emit_param(out, &format!("lit={}", l), format!("(def (x 0) (Report (y 1))) (when true (:= x {}))", l).as_bytes(), &[], &names);
        emit_param(out, &format!("lit={}", l), format!("(def (x 0) (Report (y 1))) (when (> x {}) (report))", l).as_bytes(), &[], &names);
        emit_param(out, &format!("lit={}", l), format!("(def (x 0) (Report (y 1))) (when true (:= Report.y (+ x {})))", l).as_bytes(), &[], &names);
    }
    // override position: the value is a u32
    for v in [0u32, 1, 255, 65535, 65536, 0x3fff_ffff, 0x7fff_ffff, 0x8000_0000, 0xffff_fffe, 0xffff_ffff].iter().cloned().chain((0..(if thorough { 3000 } else { 300 })).map(|_| r.u32b())) {
        let names = vec!["x".to_string(), "Report.y".to_string()];
        for target in ["x", "Report.y"] {
            emit_param(out, &format!("lit={}", v), b"(def (x 5) (Report (y 1))) (when true (report))", &[(target.to_string(), v)], &names);
        }
        // ... and reaches the variable of exactly that name (not one that differs in case, not a prefix)
        let names3 = vec!["Limit".to_string(), "limit".to_string(), "lim".to_string(), "Report.Y".to_string(), "Report.y".to_string()];
        for target in ["limit", "Limit", "lim", "Report.y", "Report.Y"] {
            emit_param(out, &format!("lit={}", v), b"(def (Limit 10) (limit 20) (lim 30) (Report (Y 1) (y 2))) (when true (:= limit (+ Limit lim)) (report))", &[(target.to_string(), v)], &names3);
        }
        // ... also when entries the compiler does not apply come before it in the list (a reserved name, a name the
        // program does not declare, a datapath register, a local)
        for first in ["__shouldReport", "__eventFlag", "__x", "nosuch", "Cwnd", "Ack.bytes_acked", "loc"] {
            emit_param(out, &format!("lit={}", v), b"(def (x 5) (Report (y 1))) (when true (:= loc 1) (report))", &[(first.to_string(), 1), ("x".to_string(), v)], &names);
            emit_param(out, &format!("lit={}", v), b"(def (x 5) (Report (y 1))) (when true (:= loc 1) (report))", &[(first.to_string(), 7), ("nosuch2".to_string(), 9), ("Report.y".to_string(), v)], &names);
        }
        // ... whatever the declared initial value was (a boolean, a name)
        let names2 = vec!["flag".to_string(), "Report.on".to_string(), "cap".to_string()];
        for target in ["flag", "Report.on", "cap"] {
            emit_param(out, &format!("lit={}", v), b"(def (flag true) (cap unset) (Report (volatile on false))) (when true (report))", &[(target.to_string(), v)], &names2);
        }
    }
}

/// C20: layout variants of generated programs: same image, same scope.
pub fn run_c20(tier: &str, seed: u64, out: &mut dyn Write) {
    let mut r = Rng::new(seed ^ 0xC20);
    let thorough = tier == "thorough";
    let nprog = if thorough { 6_000 } else { 500 };
    let nvar = if thorough { 40 } else { 8 };
    for _ in 0..nprog {
        let (src, _) = gen_prog(&mut r, 2);
        let names = candidate_names(src.as_bytes());
        let base = compile_str(src.as_bytes(), &[], &names);
        let expect = fnv64(&base);
        // compiling twice gives the same image and mapping
        emit_param(out, &format!("expect={}", expect), src.as_bytes(), &[], &names);
        let toks = tokenize(&src);
        for _ in 0..nvar {
            let v = layout_variant(&mut r, &toks);
            emit_param(out, &format!("expect={}", expect), v.as_bytes(), &[], &names);
        }
    }
}

fn ws_run(r: &mut Rng, min: usize) -> String {
    let m = if r.chance(1, 4) { 6 } else { 2 };
    let n = min + r.below(m) as usize;
    (0..n).map(|_| *r.pick(&[' ', ' ', '\t', '\r', '\n'])).collect()
}

/// Re-render a token list with random whitespace runs (non-empty only where two tokens would
/// fuse), operator spellings swapped, and comments where the grammar admits them.
pub fn layout_variant(r: &mut Rng, toks: &[String]) -> String {
    let swap = |t: &str, r: &mut Rng| -> String {
        if !r.chance(1, 2) { return t.to_string(); }
        match t { "+" => "add", "add" => "+", "-" => "sub", "sub" => "-", "*" => "mul", "mul" => "*", "/" => "div", "div" => "/",
            "==" => "eq", "eq" => "==", ">" => "gt", "gt" => ">", "<" => "lt", "lt" => "<", "&&" => "and", "and" => "&&", "||" => "or", "or" => "||",
            ":=" => "bind", "bind" => ":=", x => x }.to_string()
    };
    let mut s = ws_run(r, 0);
    let mut depth = 0i32;
    let mut in_when = false;          // inside a (when ...) at depth 1
    let mut after_cond = false;
    let mut cond_depth_start = 0;
    let mut i = 0;
    while i < toks.len() {
        let t = &toks[i];
        let prev = if i > 0 { toks[i - 1].as_str() } else { "(" };
        // a comment is admitted before an event (top level, before "(" of "(when") and among the statements of an event
        let at_event_start = depth == 0 && t == "(" && toks.get(i + 1).map(|x| x == "when").unwrap_or(false);
        let at_stmt = in_when && after_cond && depth == 1 && (t == "(" );
        if (at_event_start && r.chance(1, 3)) || (at_stmt && r.chance(1, 4)) {
            // ordinary text, an empty comment, a blank one, one that looks like code; among statements several in a row
            let ncom = if at_stmt && r.chance(1, 4) { 2 + r.below(2) } else { 1 };
            for _ in 0..ncom {
                match r.below(9) {
                    0 => s.push_str("#\n"),
                    1 => s.push_str("#  \t \n"),
                    2 => s.push_str("# (when true (report))\n"),
                    3 => s.push_str("# old:\r(:= Cwnd 1) \r (report)\n"),
                    // text that is not ASCII (2-, 3- and 4-byte characters), followed on the same line by what would be code
                    4 => s.push_str("# Δt since the last report — kept in t (:= Cwnd 1)\n"),
                    5 => s.push_str(&format!("# 窓 {} 𝛼β (report) x\n", r.below(100))),
                    _ => s.push_str(&format!("# comment {} (with parens) := x\n", r.below(100))),
                }
                s.push_str(&ws_run(r, 0));
            }
        }
        // the operator token directly follows "(" inside statements
        let is_op_pos = prev == "(" && depth >= 1 && t != "(" && t != ")";
        let tok = if is_op_pos && (in_when) { swap(t, r) } else { t.clone() };
        s.push_str(&tok);
        if t == "(" { depth += 1; } else if t == ")" { depth -= 1; }
        if depth == 1 && t == "when" && prev == "(" { in_when = true; after_cond = false; cond_depth_start = 1; }
        else if in_when && !after_cond && t != "when" && depth == cond_depth_start { after_cond = true; }
        if depth == 0 { in_when = false; after_cond = false; }
        // separator: required between two word-like tokens; optional around parentheses.
        // (no whitespace is permitted between "(" and "def" before the fix; both are handled by the parser now)
        let next = toks.get(i + 1).map(|x| x.as_str()).unwrap_or("");
        let wordlike = |x: &str| x != "(" && x != ")" && !x.is_empty() && !x.starts_with('#');
        let need = wordlike(t) && wordlike(next);
        // symbolic operators may abut a following "(" or word only when that cannot fuse: keep one space after any word-like token unless next is ")" or "("
        let need = need || (wordlike(t) && next == "(" && false);
        s.push_str(&ws_run(r, if need { 1 } else { 0 }));
        i += 1;
    }
    s
}

/// C03/C13: programs at and just beyond each register limit, declaration orders.
pub fn run_limits(tier: &str, seed: u64, out: &mut dyn Write) {
    let mut r = Rng::new(seed ^ 0xC03);
    let thorough = tier == "thorough";
    for nrep in [0usize, 1, 15, 16, 17] { for nctl in [0usize, 1, 15, 16, 17] { for nloc in [0usize, 1, 5, 6, 7] {
        for style in 0..3 {
            let mut decls: Vec<String> = vec![];
            let reps: Vec<String> = (0..nrep).map(|i| format!("({}r{} {})", if i % 2 == 0 { "volatile " } else { "" }, i, i * 3)).collect();
            let legacy: Vec<String> = (0..nrep).map(|i| format!("({}Report.r{} {})", if i % 2 == 0 { "volatile " } else { "" }, i, i * 3)).collect();
            let ctls: Vec<String> = (0..nctl).map(|i| format!("({}c{} {})", if i % 3 == 0 { "volatile " } else { "" }, i, if i % 4 == 0 { "true".to_string() } else { (i * 7).to_string() })).collect();
            match style {
                0 => { decls.extend(ctls.clone()); if nrep > 0 { decls.push(format!("(Report {})", reps.join(" "))); } }
                1 => { decls.extend(legacy.clone()); decls.extend(ctls.clone()); }
                _ => { let h = nctl / 2; decls.extend(ctls[..h].iter().cloned()); if nrep > 0 { decls.push(format!("(Report {})", reps[..nrep / 2 + nrep % 2].join(" "))); } decls.extend(legacy[nrep / 2 + nrep % 2..].iter().cloned()); decls.extend(ctls[h..].iter().cloned()); }
            }
            let binds = (0..nloc).map(|i| format!("(:= loc{} {})", i, i)).collect::<Vec<_>>().join(" ");
            let uses = (0..nrep.min(3)).map(|i| format!("(:= Report.r{} (+ Report.r{} {}))", i, i, i)).collect::<Vec<_>>().join(" ");
            let src = format!("(def {}) (when true {} {} (report))", decls.join(" "), binds, uses);
            let ups = if style == 1 && nctl > 0 { vec![(format!("c{}", nctl - 1), r.u32b()), ("Report.r0".to_string(), 7)] } else { vec![] };
            emit(out, src.as_bytes(), &ups);
        }
    } } }
    // the 8-bit slot counters: 254..257 variables of one kind, in one spelling or split across the
    // Report block and the Report.-prefixed spelling
    for (nstruct, nlegacy, nctl) in [(255usize, 0usize, 0usize), (256, 0, 0), (257, 0, 0), (0, 255, 0), (0, 256, 0), (200, 100, 0), (1, 255, 0), (255, 1, 0), (128, 128, 0), (100, 155, 3),
                                     (0, 0, 255), (0, 0, 256), (0, 0, 257), (3, 2, 254), (200, 56, 250)] {
        let mut decls: Vec<String> = vec![];
        for i in 0..nctl / 2 { decls.push(format!("(c{} {})", i, i)); }
        for i in 0..nlegacy / 2 { decls.push(format!("(Report.q{} {})", i, i)); }
        if nstruct > 0 { decls.push(format!("(Report {})", (0..nstruct).map(|i| format!("(s{} {})", i, i)).collect::<Vec<_>>().join(" "))); }
        for i in nlegacy / 2..nlegacy { decls.push(format!("(Report.q{} {})", i, i)); }
        for i in nctl / 2..nctl { decls.push(format!("(c{} {})", i, i)); }
        emit(out, format!("(def {}) (when true (report))", decls.join(" ")).as_bytes(), &[]);
    }
    // operator-node counts around the temporary-register limit, in every shape
    for n in 1..=11usize {
        for shape in 0..3 {
            let mut e = String::from("Cwnd");
            for i in 0..n { e = match shape { 0 => format!("(+ {} {})", e, i), 1 => format!("(+ {} {})", i, e), _ => if i % 2 == 0 { format!("(max {} {})", e, i) } else { format!("(- {} {})", i + 100, e) } }; }
            emit(out, format!("(def (Report (x 0))) (when true (:= Report.x {}))", e).as_bytes(), &[]);
            emit(out, format!("(def (Report (x 0))) (when (> {} 3) (report))", e).as_bytes(), &[]);
        }
    }
    for _ in 0..(if thorough { 60_000 } else { 2_500 }) {
        let d = if r.chance(1, 5) { 4 } else { 3 };
        let (src, _) = gen_prog(&mut r, d);
        emit(out, src.as_bytes(), &[]);
    }
}
