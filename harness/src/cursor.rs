//! C08: Backend::next over the scripted transport.
use crate::rng::Rng;
use crate::script::*;
use crate::util::*;
use crate::wire::{gen_msg, msg_str, ser_m};
use portus::ipc::Backend;
use std::io::Write;
use std::sync::atomic::AtomicBool;
use std::sync::{Arc, Mutex};

pub fn run_cursor(bufsize: usize, evs: Vec<Ev>) -> String {
    let evs_weight: usize = evs.iter().map(|e| match e { Ev::Dgram(a, d) => *a as usize + d.len(), _ => 1 }).sum();
    let r = catch(|| {
        let flag = Arc::new(AtomicBool::new(true));
        let sh = Arc::new(Mutex::new(Shared { script: evs.into(), ..Default::default() }));
        let ipc = ScriptIpc { sh: sh.clone(), flag: flag.clone() };
        // the caller's buffer starts wherever the caller's memory does: at an offset of 0..3 from a word
        // boundary, chosen by the script (the result may not depend on it)
        let off = evs_weight % 4;
        let mut store = vec![0u8; bufsize + 8];
        let base = (8 - (store.as_ptr() as usize % 8)) % 8;
        let buf = &mut store[base + off..base + off + bufsize];
        let flag2 = flag.clone();
        let mut b = Backend::new(ipc, flag, &mut buf[..]);
        let mut out: Vec<String> = vec![];
        let mut iters = 0usize;
        while let Some((m, a)) = b.next() {
            out.push(format!("{}@{:x}", msg_str(&m), a));
            iters += 1;
            if iters > 200_000 { return "NOPROGRESS".to_string(); }
        }
        // a stopped backend stays stopped: asking again yields nothing (and never re-delivers a message)
        if !flag2.load(std::sync::atomic::Ordering::SeqCst) {
            for _ in 0..3 { if let Some((m, a)) = b.next() { out.push(format!("AFTER-STOP:{}@{:x}", msg_str(&m), a)); } }
            // ... and took nothing off the transport meanwhile: when the caller sets the flag again, the backend
            // goes on with the datagram that follows the stop request
            flag2.store(true, std::sync::atomic::Ordering::SeqCst);
            let mut iters = 0usize;
            while let Some((m, a)) = b.next() {
                out.push(format!("R:{}@{:x}", msg_str(&m), a));
                iters += 1;
                if iters > 200_000 { return "NOPROGRESS".to_string(); }
            }
        }
        if out.is_empty() { "OK -".to_string() } else { format!("OK {}", out.join(" ; ")) }
    });
    r.unwrap_or_else(|| "PANIC".to_string())
}

pub fn eval(param: &str, arg: &str) -> String {
    let bufsize: usize = match param.parse() { Ok(b) => b, Err(_) => return "UNPARSABLE".into() };
    let items: Vec<&str> = if arg == "-" { vec![] } else { arg.split(" ; ").collect() };
    match parse_events(&items) { Some(e) => run_cursor(bufsize, e), None => "UNPARSABLE".into() }
}

fn emit(out: &mut dyn Write, bufsize: usize, evs: &[Ev]) {
    let arg = if evs.is_empty() { "-".to_string() } else { events_str(evs) };
    let res = run_cursor(bufsize, evs.to_vec());
    writeln!(out, "cursor:{}\t{}\t{}", bufsize, arg, res).unwrap();
}

fn gen_dgram(r: &mut Rng, max: usize) -> Vec<u8> {
    let k = r.range(1, 4);
    let mut d = vec![];
    for _ in 0..k {
        if let Some(Ok(b)) = ser_m(&gen_msg(r)) { if d.len() + b.len() <= max || d.is_empty() { d.extend(b); } }
    }
    d
}

pub fn run_c08(tier: &str, seed: u64, out: &mut dyn Write) {
    let mut r = Rng::new(seed ^ 0xC08);
    let thorough = tier == "thorough";
    // exhaustive truncation sweep over a fixed 3-datagram family: a long first datagram, then a
    // second one cut at every position, then a short third
    for bufsize in [1024usize, 160] {
        let d1 = { let mut d = vec![]; for i in 0..6u32 { d.extend(ser_m(&crate::wire::M::Ms(portus::serialize::measure::Msg {
            sid: 7 + i, program_uid: 3, num_fields: 2, fields: vec![0x1111_1111_1111_1111 * (i as u64 + 1), 42] })).unwrap().unwrap()); } d };
        let d2 = { let mut d = vec![]; for i in 0..3u32 { d.extend(ser_m(&crate::wire::M::Ms(portus::serialize::measure::Msg {
            sid: 100 + i, program_uid: 9, num_fields: 1, fields: vec![i as u64] })).unwrap().unwrap()); } d };
        let d3 = ser_m(&crate::wire::M::Rdy(portus::serialize::ready::Msg { id: 5 })).unwrap().unwrap();
        for cut in 0..=d2.len() {
            emit(out, bufsize, &[Ev::Dgram(1, d1.clone()), Ev::Dgram(2, d2[..cut].to_vec()), Ev::Dgram(3, d3.clone())]);
        }
    }
    // a receive buffer and a datagram above 64 KiB (sizes that do not fit 16 bits), full of whole messages
    for (bufsize, count) in [(70_000usize, 700usize), (66_000, 690), (131_200, 1370)] {
        let mut d = vec![];
        for i in 0..count { d.extend(ser_m(&crate::wire::M::Ms(portus::serialize::measure::Msg { sid: 1 + (i % 7) as u32, program_uid: 3, num_fields: 9, fields: (0..9).map(|k| (i * 16 + k) as u64).collect() })).unwrap().unwrap()); }
        d.truncate(bufsize.min(d.len()));
        emit(out, bufsize, &[Ev::Dgram(1, d), Ev::Dgram(2, ser_m(&crate::wire::M::Rdy(portus::serialize::ready::Msg { id: 9 })).unwrap().unwrap())]);
    }
    let n = if thorough { 150_000 } else { 5_000 };
    for _ in 0..n {
        let bufsize = *r.pick(&[1024usize, 1024, 256, 96, 64]);
        let k = r.range(1, 6);
        let mut evs = vec![];
        let mut prev_len = bufsize;
        for _ in 0..k {
            if r.chance(1, 10) { evs.push(Ev::RecvErr); }
            let a = r.below(3) as u8;
            // later datagrams tend to be shorter than earlier ones
            let max = if r.chance(2, 3) { prev_len.max(16) } else { bufsize + 40 };
            let mut d = gen_dgram(&mut r, max);
            match r.below(10) {
                0 | 1 | 2 => { let c = r.below(d.len() as u64 + 1) as usize; d.truncate(c); }          // truncated tail
                3 => { if !d.is_empty() { let i = r.below(d.len() as u64) as usize; d[i] ^= 1 << r.below(8); } } // corruption
                4 => { let n = r.below(12) as usize; let e = r.bytes(n); d.extend(e); }                              // junk after
                5 => { if d.len() > 4 { let c = d.len() - r.range(1, 7.min(d.len() as u64 - 1)) as usize; d.truncate(c); } }
                _ => {}
            }
            prev_len = d.len();
            evs.push(Ev::Dgram(a, d));
        }
        // now and then a stop request somewhere in the script (the caller sets the flag again afterwards and the
        // backend reads on: nothing may have been taken off the transport in between)
        if r.chance(1, 6) { let at = r.below(evs.len() as u64 + 1) as usize; evs.insert(at, Ev::Stop); }
        emit(out, bufsize, &evs);
    }
}
