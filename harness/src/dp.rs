//! Reference-datapath scripts: portus compiles the program and builds the install /
//! change-program / update-fields messages; the script is then run by the real libccp (C) and by
//! the Coq model of libccp.
use crate::lang::gen_prog;
use crate::rng::Rng;
use crate::util::*;
use portus::lang::{Reg, Type};
use portus::serialize::{self, changeprog, install, update_field};
use std::io::Write;

const B32: [u64; 10] = [0, 1, 2, 1448, 0xffff, 0x10000, 0x7fff_ffff, 0x8000_0000, 0xffff_fffe, 0xffff_ffff];
const B64: [u64; 12] = [0, 1, 10, 1448, 0x7fff_ffff, 0x8000_0000, 0xffff_ffff, 0x1_0000_0000, 0x7fff_ffff_ffff_ffff, 0x8000_0000_0000_0000, 0xffff_ffff_ffff_fffe, 0xffff_ffff_ffff_ffff];

fn prim_vec(r: &mut Rng, calm: bool) -> String {
    // 16 fields in struct order; fields 8,9,10,14 are u64, 7 is a bool, the rest u32
    (0..16).map(|i| {
        let wide = matches!(i, 8 | 9 | 10 | 14);
        let v = if calm { r.below(2000) } else if i == 7 { r.below(2) }
            else if wide { if r.chance(1, 2) { *r.pick(&B64) } else if r.chance(1, 2) { r.below(100_000) } else { r.next() } }
            else if r.chance(1, 2) { *r.pick(&B32) } else if r.chance(1, 2) { r.below(100_000) } else { r.next() & 0xffff_ffff };
        format!("{:x}", v)
    }).collect::<Vec<_>>().join(",")
}

pub fn install_hex(src: &[u8], uid: u32) -> Option<(String, portus::lang::Scope)> {
    let (bin, sc) = catch(|| portus::lang::compile(src, &[]))?.ok()?;
    let m = install::Msg { sid: 0, program_uid: uid, num_events: bin.events.len() as u32, num_instrs: bin.instrs.len() as u32, instrs: bin };
    let b = catch(|| serialize::serialize(&m))?.ok()?;
    Some((hex(&b), sc))
}

fn ctl_updates(r: &mut Rng, sc: &portus::lang::Scope, names: &[String], n: usize) -> Vec<(Reg, u64)> {
    let mut v = vec![];
    for _ in 0..n {
        if r.chance(1, 4) { v.push((Reg::Implicit(if r.chance(1, 2) { 4 } else { 5 }, Type::Num(None)), r.u32b() as u64)); continue; }
        let cands: Vec<&String> = names.iter().filter(|n| matches!(sc.get(n), Some(Reg::Control(..)))).collect();
        if cands.is_empty() { v.push((Reg::Implicit(4, Type::Num(None)), r.u32b() as u64)); continue; }
        let n = *r.pick(&cands);
        v.push((sc.get(n).unwrap().clone(), r.u32b() as u64));
    }
    v
}

pub fn emit_case(out: &mut dyn Write, src: &str, script: &str) {
    writeln!(out, "dp\t{}|{}\tPENDING-CREF", hex(src.as_bytes()), script).unwrap();
}

/// C01/C06 stream: compiled programs run on the reference datapath over measurement sequences.
pub fn run_dp(tier: &str, seed: u64, out: &mut dyn Write) {
    let mut r = Rng::new(seed ^ 0xD9);
    let thorough = tier == "thorough";
    let n = if thorough { 40_000 } else { 2_500 };
    // programs in which a sibling bind overwrites an operand between its evaluation and its use
    // (the recorded C01 finding), and nested binds that do not
    for (src, cw) in [("(def (Report (x 1)) (c 2)) (when true (:= Report.x (+ c (:= c 10))) (report))", 5u32),
                      ("(def (Report (x 1)) (c 2)) (when true (:= Report.x (+ (:= c 10) c)) (report))", 5),
                      ("(def (Report (x 1)) (c 2)) (when true (:= Report.x (- (+ c 0) (:= c 1))) (report))", 5),
                      ("(def (Report (x 1)) (c 2)) (when true (:= Report.x (+ (:= c 3) (:= c 4))) (report))", 5),
                      ("(def (Report (x 1)) (c true)) (when true (:= Report.x (if c (+ 1 (+ 2 3)))) (:= c false) (report))", 5),
                      // a bind used as an operand whose source is re-bound by the sibling: the operand is the value bound, not the source
                      ("(def (Report (x 1)) (a 2) (b 7)) (when true (:= Report.x (+ (:= a b) (:= b 5))) (report))", 5),
                      ("(def (Report (x 1) (y 4)) (a 2)) (when true (:= Report.x (- (:= a Report.y) (:= Report.y 3))) (report))", 5),
                      ("(def (Report (x 1)) (a 2) (b 7)) (when true (:= l b) (:= Report.x (* (:= a l) (:= l 9))) (report))", 5),
                      ("(def (Report (x 1)) (a 2)) (when true (:= Report.x (+ (:= a Ack.bytes_acked) (:= a 3))) (report))", 5),
                      // the target of a bind is itself a bind whose variable the value reads
                      ("(def (Report (volatile a 0))) (when true (bind (bind Report.a 7) (+ Report.a 1)) (report))", 5),
                      ("(def (Report (a 0)) (c 100)) (when true (:= (:= c 5) (+ c 1)) (:= Report.a c) (report))", 5)] {
        if let Some((inst, _)) = install_hex(src.as_bytes(), 77) {
            let cp = changeprog::Msg { sid: 1, program_uid: 77, num_fields: 0, fields: vec![] };
            let cpb = serialize::serialize(&cp).unwrap();
            emit_case(out, src, &format!("M{} N1,2,- M{} P1,1,1,1,1,1,1,0,1,1,1,1,1,{:x},c8,1 T2000 I G T3000 I G", inst, hex(&cpb), cw));
        }
    }
    let mut done = 0;
    while done < n {
        let (src, vars) = gen_prog(&mut r, 3);
        let uid = 2 + r.below(1000) as u32;
        let (inst, sc) = match install_hex(src.as_bytes(), uid) { Some(x) => x, None => continue };
        let names: Vec<String> = vars.controls.iter().map(|x| x.0.clone()).collect();
        let nup = r.below(3) as usize;
        let ups = ctl_updates(&mut r, &sc, &names, nup);
        let cp = changeprog::Msg { sid: 1, program_uid: uid, num_fields: ups.len() as u32, fields: ups };
        let cpb = match catch(|| serialize::serialize(&cp)) { Some(Ok(b)) => b, _ => continue };
        let mut script = format!("M{} N{:x},{:x},- M{}", inst, r.u32b(), r.u32b(), hex(&cpb));
        let mut clock: u64 = 1000 + r.below(5000);
        let steps = if thorough && r.chance(1, 20) { r.range(40, 80) } else { r.range(1, 12) };
        let calm = r.chance(1, 3);
        for _ in 0..steps {
            clock += match r.below(4) { 0 => 0, 1 => r.below(100), 2 => r.below(10_000), _ => r.below(5_000_000) };
            script.push_str(&format!(" P{} T{:x} I G", prim_vec(&mut r, calm), clock));
            if r.chance(1, 8) {
                let nup = r.range(1, 3) as usize;
                let ups = ctl_updates(&mut r, &sc, &names, nup);
                let m = update_field::Msg { sid: 1, num_fields: ups.len() as u8, fields: ups };
                if let Some(Ok(b)) = catch(|| serialize::serialize(&m)) { script.push_str(&format!(" M{}", hex(&b))); }
            }
        }
        if r.chance(1, 4) { script.push_str(" F"); }
        emit_case(out, &src, &script);
        done += 1;
    }
}

/// C06 stream: control messages built from every register kind, boundary indices and values,
/// update lists of every length 0..300, programs of growing size.
pub fn run_c06(tier: &str, seed: u64, out: &mut dyn Write) {
    let mut r = Rng::new(seed ^ 0xC06);
    let thorough = tier == "thorough";
    let base = "(def (Report (volatile a 0) (b 1)) (c0 5) (volatile c1 6) (c2 7)) (when true (:= Report.a (+ Report.a c0)) (:= Report.b c1) (report))";
    let (inst, sc) = install_hex(base.as_bytes(), 9).unwrap();
    let regs_ok = vec![sc.get("c0").unwrap().clone(), sc.get("c1").unwrap().clone(), sc.get("c2").unwrap().clone(),
        Reg::Implicit(4, Type::Num(None)), Reg::Implicit(5, Type::Num(None))];
    // every length 0..300 of update lists, in both message kinds
    let step = if thorough { 1 } else { 7 };
    let mut lens: Vec<usize> = (0..=300).step_by(step).collect();
    lens.extend([126, 127, 128, 129, 221, 222, 223, 254, 255, 256, 257]);
    for n in lens {
        let ups: Vec<(Reg, u64)> = (0..n).map(|_| (r.pick(&regs_ok).clone(), r.u64b())).collect();
        let cp = changeprog::Msg { sid: 1, program_uid: 9, num_fields: n as u32, fields: ups.clone() };
        let cps = match catch(|| serialize::serialize(&cp)) { Some(Ok(b)) => format!("M{}", hex(&b)), Some(Err(_)) => "SERERR".to_string(), None => "SERPANIC".to_string() };
        emit_case(out, base, &format!("M{} N1,2,- {} P1,1,1,1,1,1,1,0,1,1,1,1,1,64,c8,1 T2000 I G", inst, cps));
        let uf = update_field::Msg { sid: 1, num_fields: n as u8, fields: ups };
        let ufs = if n > 255 { "SERERR".to_string() } else { match catch(|| serialize::serialize(&uf)) { Some(Ok(b)) => format!("M{}", hex(&b)), Some(Err(_)) => "SERERR".to_string(), None => "SERPANIC".to_string() } };
        emit_case(out, base, &format!("M{} N1,2,- M{} T1500 I {} T2000 I G", inst,
            hex(&serialize::serialize(&changeprog::Msg { sid: 1, program_uid: 9, num_fields: 0, fields: vec![] }).unwrap()), ufs));
    }
    // every register kind in an update, boundary indices and values
    let kinds: Vec<Reg> = vec![Reg::Control(0, Type::Num(None), false), Reg::Control(15, Type::Num(None), true), Reg::Control(16, Type::Num(None), false),
        Reg::Report(0, Type::Num(None), true), Reg::Report(15, Type::Num(None), false), Reg::Local(0, Type::Num(None)), Reg::Local(5, Type::Num(None)), Reg::Local(6, Type::Num(None)),
        Reg::Primitive(0, Type::Num(None)), Reg::Primitive(15, Type::Num(None)), Reg::Implicit(0, Type::Bool(None)), Reg::Implicit(3, Type::Num(None)), Reg::Implicit(4, Type::Num(None)),
        Reg::Implicit(5, Type::Num(None)), Reg::Implicit(6, Type::Num(None)), Reg::Tmp(0, Type::Num(None)), Reg::Tmp(7, Type::Num(None)), Reg::Tmp(8, Type::Num(None)),
        Reg::ImmNum(5), Reg::ImmNum(u64::MAX), Reg::ImmNum(1 << 31), Reg::ImmBool(true)];
    for k in &kinds { for v in [0u64, 1, 0xffff_ffff, 0x1_0000_0000, u64::MAX] {
        let cp = changeprog::Msg { sid: 1, program_uid: 9, num_fields: 1, fields: vec![(k.clone(), v)] };
        let cps = match catch(|| serialize::serialize(&cp)) { Some(Ok(b)) => format!("M{}", hex(&b)), Some(Err(_)) => "SERERR".to_string(), None => "SERPANIC".to_string() };
        emit_case(out, base, &format!("M{} N1,2,- {} P1,1,1,1,1,1,1,0,1,1,1,1,1,64,c8,1 T2000 I G", inst, cps));
    } }
    // programs of growing size (the image inside the install message), incl. beyond libccp's 255 instructions
    for nst in [1usize, 2, 10, 50, 80, 84, 85, 86, 100, 200, 1000, 1364, 1365, 1366, 4000] {
        let body = (0..nst).map(|i| format!("(:= Report.a (+ Report.a {}))", i)).collect::<Vec<_>>().join(" ");
        let src = format!("(def (Report (volatile a 0))) (when true {} (report))", body);
        match catch(|| portus::lang::compile(src.as_bytes(), &[])) {
            Some(Ok((bin, _))) => {
                let m = install::Msg { sid: 0, program_uid: 9, num_events: bin.events.len() as u32, num_instrs: bin.instrs.len() as u32, instrs: bin };
                let s = match catch(|| serialize::serialize(&m)) { Some(Ok(b)) => format!("LEN{} {}", b.len(), if b.len() <= 4096 { format!("M{}", hex(&b)) } else { "TOOLONG-FOR-SCRIPT".to_string() }), Some(Err(_)) => "SERERR".to_string(), None => "SERPANIC".to_string() };
                if nst <= 100 { emit_case(out, &src, &format!("{} N1,2,- M{} P1,1,1,1,1,1,1,0,1,1,1,1,1,64,c8,1 T2000 I G", s.split(' ').nth(1).unwrap_or("?"),
                    hex(&serialize::serialize(&changeprog::Msg { sid: 1, program_uid: 9, num_fields: 0, fields: vec![] }).unwrap()))); }
                else { writeln!(out, "ctlser\tinstall:{}\t{}", nst, s.split(' ').next().unwrap_or("")).unwrap(); }
            }
            _ => { writeln!(out, "ctlser\tinstall:{}\tCOMPILE-ERR", nst).unwrap(); }
        }
    }
    // the 16-bit length boundary, byte-exactly: install messages of 65524 / 65540 / 65556 bytes
    // (two-instruction and one-instruction statements mixed) and change-program messages of
    // 65510 / 65523 / 65536 / 65549 bytes
    for (nst, one) in [(2044usize, 1usize), (2045, 0), (2045, 1), (2045, 2), (2046, 0)] {
        let body = (0..nst).map(|i| format!("(:= Report.a (+ Report.a {}))", i)).chain((0..one).map(|i| format!("(:= Report.a {})", i))).collect::<Vec<_>>().join(" ");
        let src = format!("(def (Report (volatile a 0))) (when true {} (report))", body);
        let res = match catch(|| portus::lang::compile(src.as_bytes(), &[])) {
            Some(Ok((bin, _))) => {
                let m = install::Msg { sid: 0, program_uid: 9, num_events: bin.events.len() as u32, num_instrs: bin.instrs.len() as u32, instrs: bin };
                match catch(|| serialize::serialize(&m)) {
                    Some(Ok(b)) => format!("LEN{} HDR{}", b.len(), u16::from_le_bytes([b[2], b[3]])),
                    Some(Err(_)) => "SERERR".to_string(), None => "SERPANIC".to_string() }
            }
            _ => "COMPILE-ERR".to_string(),
        };
        writeln!(out, "ctlser\tinstall:{}:{}\t{}", nst, one, res).unwrap();
    }
    for n in [5038usize, 5039, 5040, 5041, 6000] {
        let ups: Vec<(Reg, u64)> = (0..n).map(|i| (regs_ok[i % regs_ok.len()].clone(), i as u64)).collect();
        let cp = changeprog::Msg { sid: 1, program_uid: 9, num_fields: n as u32, fields: ups };
        let res = match catch(|| serialize::serialize(&cp)) {
            Some(Ok(b)) => format!("LEN{} HDR{}", b.len(), u16::from_le_bytes([b[2], b[3]])),
            Some(Err(_)) => "SERERR".to_string(), None => "SERPANIC".to_string() };
        writeln!(out, "ctlser\tchangeprog:{}\t{}", n, res).unwrap();
    }
}
