//! splitmix64: the single source of randomness; every generator draws from one of these.
#[derive(Clone)]
pub struct Rng(pub u64);
impl Rng {
    pub fn new(seed: u64) -> Self { Rng(seed.wrapping_mul(0x9E3779B97F4A7C15).wrapping_add(0x1234567)) }
    pub fn next(&mut self) -> u64 {
        self.0 = self.0.wrapping_add(0x9E3779B97F4A7C15);
        let mut z = self.0;
        z = (z ^ (z >> 30)).wrapping_mul(0xBF58476D1CE4E5B9);
        z = (z ^ (z >> 27)).wrapping_mul(0x94D049BB133111EB);
        z ^ (z >> 31)
    }
    pub fn below(&mut self, n: u64) -> u64 { if n == 0 { 0 } else { self.next() % n } }
    pub fn range(&mut self, lo: u64, hi: u64) -> u64 { lo + self.below(hi - lo + 1) }
    pub fn chance(&mut self, num: u64, den: u64) -> bool { self.below(den) < num }
    pub fn pick<'a, T>(&mut self, xs: &'a [T]) -> &'a T { &xs[self.below(xs.len() as u64) as usize] }
    pub fn u32b(&mut self) -> u32 {
        const B: [u32; 12] = [0, 1, 2, 255, 256, 65535, 65536, 0x7fff_ffff, 0x8000_0000, 0xffff_fffe, 0xffff_ffff, 1448];
        if self.chance(1, 2) { *self.pick(&B) } else { self.next() as u32 }
    }
    pub fn u64b(&mut self) -> u64 {
        const B: [u64; 12] = [0, 1, 255, 256, 0x7fff_ffff, 0x8000_0000, 0xffff_ffff, 0x1_0000_0000,
            0x7fff_ffff_ffff_ffff, 0x8000_0000_0000_0000, 0xffff_ffff_ffff_fffe, 0xffff_ffff_ffff_ffff];
        if self.chance(1, 2) { *self.pick(&B) } else { self.next() }
    }
    pub fn bytes(&mut self, n: usize) -> Vec<u8> { (0..n).map(|_| self.next() as u8).collect() }
}
