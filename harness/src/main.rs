//! Correspondence harness: runs portus (path dependency on /repo's working tree) on generated
//! inputs and prints canonical `cmd \t arg \t result` lines.  One PRNG (splitmix64) seeded
//! from the command line drives every choice, so runs replay exactly.
mod apiorder;
mod conc;
mod cursor;
mod dp;
mod lang;
mod rng;
mod runtime;
mod script;
mod util;
mod wire;

use std::io::{BufRead, Write};

/// Enables everything and records nothing: with it every log statement of the library evaluates its arguments.
struct AllOn;
impl tracing::Subscriber for AllOn {
    fn enabled(&self, _m: &tracing::Metadata<'_>) -> bool { true }
    fn new_span(&self, _s: &tracing::span::Attributes<'_>) -> tracing::span::Id { tracing::span::Id::from_u64(1) }
    fn record(&self, _s: &tracing::span::Id, _v: &tracing::span::Record<'_>) {}
    fn record_follows_from(&self, _s: &tracing::span::Id, _f: &tracing::span::Id) {}
    fn event(&self, e: &tracing::Event<'_>) {
        // visit the fields, as a formatter would
        struct V; impl tracing::field::Visit for V { fn record_debug(&mut self, _f: &tracing::field::Field, v: &dyn std::fmt::Debug) { let _ = format!("{:?}", v).len(); } }
        e.record(&mut V);
    }
    fn enter(&self, _s: &tracing::span::Id) {}
    fn exit(&self, _s: &tracing::span::Id) {}
}

fn main() {
    if std::env::var("HARNESS_TRACE").is_ok() { let _ = tracing::subscriber::set_global_default(AllOn); }
    util::quiet_panics();
    let args: Vec<String> = std::env::args().collect();
    if args.len() < 2 { eprintln!("usage: harness <stream> [tier] [seed] | harness eval"); std::process::exit(2); }
    let tier = args.get(2).map(|s| s.as_str()).unwrap_or("quick").to_string();
    let seed: u64 = args.get(3).and_then(|s| s.parse().ok()).unwrap_or(0);
    // portus prints diagnostics to stdout (println! in lang::compile): results go to the file
    // named by HARNESS_OUT when set, so they cannot be interleaved with that text
    let sink: Box<dyn Write> = match std::env::var("HARNESS_OUT") {
        Ok(p) => Box::new(std::fs::File::create(p).expect("HARNESS_OUT")),
        Err(_) => Box::new(std::io::stdout()),
    };
    let mut out = std::io::BufWriter::with_capacity(1 << 20, sink);
    match args[1].as_str() {
        "c04" => wire::run_c04(&tier, seed, &mut out),
        "c07" => wire::run_c07(&tier, seed, &mut out),
        "c08" => cursor::run_c08(&tier, seed, &mut out),
        "loop" | "loopadv" => runtime::run_stream(&args[1], &tier, seed, &mut out),
        "ignore" => runtime::run_ignore_stream(&tier, seed, &mut out),
        "isolate" => runtime::run_isolate_stream(&tier, seed, &mut out),
        "compile" => lang::run_compile_basic(&tier, seed, &mut out),
        "c10" => lang::run_c10(&tier, seed, &mut out),
        "c14" => lang::run_c14(&tier, seed, &mut out),
        "c20" => lang::run_c20(&tier, seed, &mut out),
        "limits" => lang::run_limits(&tier, seed, &mut out),
        "dp" => dp::run_dp(&tier, seed, &mut out),
        "c06" => dp::run_c06(&tier, seed, &mut out),
        "c17" => conc::run_c17(&tier, seed, &mut out),
        // streams whose cases wait on threads, sockets and the clock: a result that says a wait ran out (it
        // can, on a loaded machine) is asked for again, twice at most; a defect that makes the wait run out
        // does so every time and is reported all the same
        "c19" | "apiorder" | "unixapi" => {
            let mut buf: Vec<u8> = vec![];
            for attempt in 0..3 {
                buf.clear();
                match args[1].as_str() {
                    "c19" => conc::run_c19(&tier, seed, &mut buf),
                    "apiorder" => apiorder::run_apiorder(&mut buf),
                    _ => apiorder::run_unixapi(&mut buf),
                }
                let text = String::from_utf8_lossy(&buf);
                let waited_out = ["did-not-return", "did-not-stop", "backlog-not-dispatched", "gave up", "cannot-bind", "] of ", "after-blocking"].iter().any(|m| text.contains(m));
                if !waited_out || attempt == 2 { break; }
                std::thread::sleep(std::time::Duration::from_millis(700));
            }
            out.write_all(&buf).unwrap();
        }
        // re-evaluate given cases (corpus / replay / shrinking): stdin lines `cmd \t arg [\t ...]`
        "eval" => {
            let stdin = std::io::stdin();
            for line in stdin.lock().lines() {
                let line = line.unwrap();
                let mut it = line.split('\t');
                let cmd = it.next().unwrap_or("");
                let arg = it.next().unwrap_or("");
                let res = eval(cmd, arg);
                let arg2 = if cmd == "loop" { runtime::with_descriptors(arg, &runtime::prog_descriptors()) }
                    else if cmd == "ignore" {
                        let d = runtime::prog_descriptors();
                        match arg.split_once(" ## ") { Some((a, b)) => format!("{} ## {}", runtime::with_descriptors(a, &d), runtime::with_descriptors(b, &d)), None => arg.to_string() }
                    } else if cmd == "isolate" {
                        let d = runtime::prog_descriptors();
                        match arg.split_once(" @@ ") { Some((a, b)) => format!("{} @@ {}", runtime::with_descriptors(a, &d), b), None => arg.to_string() }
                    } else { arg.to_string() };
                writeln!(out, "{}\t{}\t{}", cmd, arg2, res).unwrap();
            }
        }
        s => { eprintln!("unknown stream {}", s); std::process::exit(2); }
    }
    out.flush().unwrap();
}

fn eval(cmd: &str, arg: &str) -> String {
    let (name, param) = cmd.split_once(':').unwrap_or((cmd, ""));
    match name {
        "cursor" => cursor::eval(param, arg),
        "loop" => runtime::eval(arg),
        "ignore" => runtime::eval_ignore(arg),
        "isolate" => runtime::eval_isolate(arg),
        "compile" => lang::eval(arg),
        "dp" => "PENDING-CREF".to_string(),
        "frombuf" => wire::frombuf_str(&util::unhex(arg)),
        "rt" => wire::parse_m(arg).map(|m| wire::rt_str(&m)).unwrap_or_else(|| "UNPARSABLE".into()),
        "concat" => wire::concat_eval(arg),
        _ => "UNKNOWN-COMMAND".to_string(),
    }
}
