//! C17 (uid uniqueness under concurrent compilation) and C19 (bundled transports) stress runs.
use crate::rng::Rng;
use crate::util::*;
use portus::ipc::{Blocking, Ipc, Nonblocking};
use std::io::Write;
use std::sync::{Arc, Barrier};
use std::thread;

const SRCS: [&[u8]; 6] = [
    b"(def (Report (x 0))) (when true (:= Report.x (+ Report.x 1)) (report))",
    b"(def (c 1)) (when (> Micros c) (:= Cwnd 5))",
    b"(def (Report (x 0))) (when true (:= Report.x (+ 1)))",   // does not compile: still consumes a uid
    b"not a program",
    b"(def (c 1)) \xff\xfe (when true (report))",               // not UTF-8: rejected before anything is allocated
    b"",
];

pub fn run_c17(tier: &str, seed: u64, out: &mut dyn Write) {
    let thorough = tier == "thorough";
    let mut r = Rng::new(seed ^ 0xC17);
    for &n in &[1usize, 2, 4, 8, 16] {
        for rep in 0..(if thorough { 6 } else { 2 }) {
            let m = if thorough { 200_000 / n.max(4) } else { 2_000 };
            let barrier = Arc::new(Barrier::new(n));
            let seeds: Vec<u64> = (0..n).map(|_| r.next()).collect();
            let hs: Vec<_> = (0..n).map(|t| {
                let b = barrier.clone();
                let s = seeds[t];
                thread::spawn(move || {
                    let mut rr = Rng::new(s);
                    let mut uids = Vec::with_capacity(m);
                    let mut last: Option<portus::lang::Scope> = None;
                    b.wait();
                    for _ in 0..m {
                        let src = *rr.pick(&SRCS);
                        if let Some(Ok((bin, sc))) = catch(|| portus::lang::compile(src, &[])) {
                            // the uid placed in an install message is the scope's; a clone keeps it
                            // (through every way the language offers of copying one: clone, clone_from onto a scope of
                            // another compilation, to_owned, a clone of a container that holds it)
                            let c = sc.clone();
                            let _ = bin;
                            let mut ok = c.program_uid == sc.program_uid;
                            if let Some(prev) = last.as_mut() { prev.clone_from(&sc); ok = ok && prev.program_uid == sc.program_uid && prev.get("Cwnd").is_some() == sc.get("Cwnd").is_some(); }
                            let boxed = vec![Some(sc.clone())].clone(); ok = ok && boxed[0].as_ref().map(|x| x.program_uid) == Some(sc.program_uid);
                            ok = ok && sc.to_owned().program_uid == sc.program_uid;
                            let mut slot = Some(c.clone()); slot.clone_from(&Some(sc.clone())); ok = ok && slot.map(|x| x.program_uid) == Some(sc.program_uid);
                            last = Some(c);
                            uids.push((sc.program_uid, if ok { sc.program_uid } else { !sc.program_uid }));
                        }
                    }
                    uids
                })
            }).collect();
            let per: Vec<Vec<(u32, u32)>> = hs.into_iter().map(|h| h.join().unwrap()).collect();
            let mut all: Vec<u32> = per.iter().flat_map(|v| v.iter().map(|x| x.0)).collect();
            let total = all.len();
            let clone_ok = per.iter().all(|v| v.iter().all(|(a, b)| a == b));
            let increasing = per.iter().all(|v| v.windows(2).all(|w| w[0].0 < w[1].0));
            all.sort_unstable();
            let dup = all.windows(2).find(|w| w[0] == w[1]).map(|w| w[0]);
            let res = match dup {
                Some(d) => format!("DUPLICATE uid {} among {} compilations", d, total),
                None => format!("distinct clone={} per-thread-increasing={}", clone_ok, increasing),
            };
            writeln!(out, "uids\tthreads={} m={} rep={}\t{}", n, m, rep, res).unwrap();
        }
    }
}

fn checksum(b: &[u8]) -> u32 { b.iter().fold(2166136261u32, |h, x| (h ^ *x as u32).wrapping_mul(16777619)) }

/// payload: sender id, sequence number, length, filler derived from them, checksum
fn payload(sender: u8, seq: u32, len: usize) -> Vec<u8> {
    let len = len.max(13);
    let mut v = vec![0u8; len];
    v[0] = sender;
    v[1..5].copy_from_slice(&seq.to_le_bytes());
    v[5..9].copy_from_slice(&(len as u32).to_le_bytes());
    for i in 9..len - 4 { v[i] = (seq as usize * 31 + i * 7 + sender as usize) as u8; }
    let c = checksum(&v[..len - 4]);
    v[len - 4..].copy_from_slice(&c.to_le_bytes());
    v
}
fn check_payload(b: &[u8]) -> Option<(u8, u32)> {
    if b.len() < 13 { return None; }
    let len = u32::from_le_bytes([b[5], b[6], b[7], b[8]]) as usize;
    if len != b.len() { return None; }
    let c = u32::from_le_bytes([b[len - 4], b[len - 3], b[len - 2], b[len - 1]]);
    if c != checksum(&b[..len - 4]) { return None; }
    Some((b[0], u32::from_le_bytes([b[1], b[2], b[3], b[4]])))
}

fn judge(got: &[(u8, u32)], senders: usize, per: usize, bad: usize) -> String {
    let mut next = vec![0u32; senders];
    for (s, q) in got {
        let s = *s as usize;
        if s >= senders { return format!("unknown sender {}", s); }
        if *q != next[s] { return format!("sender {} expected seq {} got {} (lost, duplicated or reordered)", s, next[s], q); }
        next[s] += 1;
    }
    if bad > 0 { return format!("{} corrupted datagrams", bad); }
    if next.iter().any(|n| *n as usize != per) { return format!("received {:?} of {} per sender", next, per); }
    "intact-once-in-order".to_string()
}

pub fn run_c19(tier: &str, seed: u64, out: &mut dyn Write) {
    let thorough = tier == "thorough";
    let mut r = Rng::new(seed ^ 0xC19);
    let burst = if thorough { 100_000 } else { 5_000 };
    // ---- channel transport: the portus side receives through Socket::recv
    for senders in 1..=4usize {
        let per = burst / senders;
        let (to_ccp, from_dp) = crossbeam::channel::unbounded::<Vec<u8>>();
        let (to_dp, _from_ccp) = crossbeam::channel::unbounded::<Vec<u8>>();
        let sock = portus::ipc::chan::Socket::<Blocking>::new(to_dp, from_dp);
        let seeds: Vec<u64> = (0..senders).map(|_| r.next()).collect();
        let hs: Vec<_> = (0..senders).map(|s| { let tx = to_ccp.clone(); let sd = seeds[s]; thread::spawn(move || {
            let mut rr = Rng::new(sd);
            for q in 0..per { let len = if rr.chance(1, 50) { 1024 } else { rr.range(13, 1024) as usize }; tx.send(payload(s as u8, q as u32, len)).unwrap(); if rr.chance(1, 200) { thread::yield_now(); } }
        }) }).collect();
        let mut got = vec![]; let mut bad = 0; let mut buf = [0u8; 1024];
        while got.len() + bad < per * senders {
            match sock.recv(&mut buf) { Ok((n, ())) => match check_payload(&buf[..n]) { Some(x) => got.push(x), None => bad += 1 }, Err(_) => break }
        }
        for h in hs { h.join().unwrap(); }
        writeln!(out, "transport\tchan senders={} per={}\t{}", senders, per, judge(&got, senders, per, bad)).unwrap();
    }
    // channel: portus-side send delivers intact, in order
    {
        let (to_ccp, _from_dp) = crossbeam::channel::unbounded::<Vec<u8>>();
        let (to_dp, from_ccp) = crossbeam::channel::unbounded::<Vec<u8>>();
        let _keep = to_ccp;
        let sock = portus::ipc::chan::Socket::<Blocking>::new(to_dp, _from_dp);
        let per = burst / 4;
        for q in 0..per { let len = r.range(13, 1024) as usize; sock.send(&payload(0, q as u32, len), &()).unwrap(); }
        let mut got = vec![]; let mut bad = 0;
        while let Ok(b) = from_ccp.try_recv() { match check_payload(&b) { Some(x) => got.push(x), None => bad += 1 } }
        writeln!(out, "transport\tchan-send per={}\t{}", per, judge(&got, 1, per, bad)).unwrap();
    }
    // channel: non-blocking receive with nothing pending; oversized datagram; dead handle
    {
        let (_to_ccp, from_dp) = crossbeam::channel::unbounded::<Vec<u8>>();
        let (to_dp, _from_ccp) = crossbeam::channel::unbounded::<Vec<u8>>();
        let sock = portus::ipc::chan::Socket::<Nonblocking>::new(to_dp, from_dp);
        let mut buf = [0u8; 64];
        let t0 = std::time::Instant::now();
        let res = catch(|| sock.recv(&mut buf).is_err());
        let quick = t0.elapsed().as_millis() < 300;
        writeln!(out, "transport\tchan-nonblocking-empty\t{}", match res { Some(true) if quick => "error-at-once".to_string(), Some(true) => "error-after-blocking".to_string(), Some(false) => "returned-data".to_string(), None => "PANIC".to_string() }).unwrap();
    }
    // channel, polling: a backlog queued before the first receive comes out one datagram per call
    {
        let (to_ccp, from_dp) = crossbeam::channel::unbounded::<Vec<u8>>();
        let (to_dp, _from_ccp) = crossbeam::channel::unbounded::<Vec<u8>>();
        let sock = portus::ipc::chan::Socket::<Nonblocking>::new(to_dp, from_dp);
        let per = burst / 10;
        for q in 0..per { let len = if r.chance(1, 3) { r.range(13, 40) as usize } else { r.range(13, 1024) as usize }; to_ccp.send(payload(0, q as u32, len)).unwrap(); }
        let mut got = vec![]; let mut bad = 0; let mut buf = [0u8; 1024];
        let res = catch(|| { while let Ok((n, ())) = sock.recv(&mut buf) { match check_payload(&buf[..n]) { Some(x) => got.push(x), None => bad += 1 } } });
        writeln!(out, "transport\tchan-polling-backlog per={}\t{}", per, if res.is_none() { "PANIC".to_string() } else { judge(&got, 1, per, bad) }).unwrap();
    }
    // the receive path on the channel transport with the caller's buffer starting 0..3 bytes off a word boundary and
    // messages that fill it to the last byte: each comes out whole, once, in order
    for off in 0..4usize {
        use portus::serialize::{self, measure};
        let msgs: Vec<Vec<u8>> = (0..3u32).map(|i| serialize::serialize(&measure::Msg { sid: 10 + i, program_uid: 4, num_fields: 16, fields: (0..16).map(|k| (i as u64) << 32 | k).collect() }).unwrap()).collect();
        let size = msgs[0].len();
        let (to_ccp, from_dp) = crossbeam::channel::unbounded::<Vec<u8>>();
        let (to_dp, _from_ccp) = crossbeam::channel::unbounded::<Vec<u8>>();
        for m in &msgs { to_ccp.send(m.clone()).unwrap(); }
        let flag = Arc::new(std::sync::atomic::AtomicBool::new(true));
        let f2 = flag.clone();
        let stopper = thread::spawn(move || { thread::sleep(std::time::Duration::from_millis(400)); f2.store(false, std::sync::atomic::Ordering::SeqCst); });
        let res = catch(|| {
            let sock = portus::ipc::chan::Socket::<Nonblocking>::new(to_dp, from_dp);
            let mut store = vec![0u8; size + 16];
            let base = (8 - (store.as_ptr() as usize % 8)) % 8;
            let buf = &mut store[base + off..base + off + size];
            let mut b = portus::ipc::Backend::new(sock, flag, buf);
            let mut got = vec![];
            while let Some((m, ())) = b.next() { if let portus::serialize::Msg::Ms(x) = m { got.push((x.sid, x.fields.len(), x.fields.last().cloned())); } else { got.push((0, 0, None)); } if got.len() >= 3 { break; } }
            got
        });
        let _ = stopper.join();
        let want: Vec<(u32, usize, Option<u64>)> = (0..3u32).map(|i| (10 + i, 16, Some((i as u64) << 32 | 15))).collect();
        writeln!(out, "transport\tchan-backend buffer-offset={} message-size=buffer-size={}\t{}", off, size,
            match res { None => "PANIC".to_string(), Some(g) if g == want => "intact-once-in-order".to_string(), Some(g) => format!("received [{}] of 3 whole messages", g.len()) }).unwrap();
    }
    for over in [1025usize, 2048, 70000] {
        let (to_ccp, from_dp) = crossbeam::channel::unbounded::<Vec<u8>>();
        let (to_dp, _from_ccp) = crossbeam::channel::unbounded::<Vec<u8>>();
        let sock = portus::ipc::chan::Socket::<Blocking>::new(to_dp, from_dp);
        to_ccp.send(vec![7u8; over]).unwrap();
        to_ccp.send(payload(0, 0, 100)).unwrap();
        let mut buf = [0u8; 1024];
        let first = catch(|| sock.recv(&mut buf).map(|x| x.0));
        let second = catch(|| sock.recv(&mut buf).map(|x| x.0));
        let s = match (first, second) {
            (None, _) | (_, None) => "PANIC".to_string(),
            (Some(Err(_)), Some(Ok(100))) => "oversized-refused-next-delivered".to_string(),
            (a, b) => format!("unexpected {:?} {:?}", a.map(|x| x.ok()), b.map(|x| x.ok())),
        };
        writeln!(out, "transport\tchan-oversized {}\t{}", over, s).unwrap();
    }
    {
        // a send handle whose backend is gone returns an error
        let (to_ccp, from_dp) = crossbeam::channel::unbounded::<Vec<u8>>();
        let (to_dp, _from_ccp) = crossbeam::channel::unbounded::<Vec<u8>>();
        let _k = to_ccp;
        let sock = portus::ipc::chan::Socket::<Blocking>::new(to_dp, from_dp);
        let flag = Arc::new(std::sync::atomic::AtomicBool::new(true));
        let mut rbuf = [0u8; 64];
        let sender = { let b = portus::ipc::Backend::new(sock, flag, &mut rbuf[..]); b.sender(()) };
        let res = catch(|| sender.send_msg(&[1, 2, 3]).is_err());
        writeln!(out, "transport\tdead-handle\t{}", match res { Some(true) => "error", Some(false) => "sent", None => "PANIC" }).unwrap();
    }
    // ---- unix datagram transport
    let tag = format!("pv{}-{}", std::process::id(), seed);
    for senders in 1..=3usize {
        let per = (if thorough { 30_000 } else { 3_000 }) / senders;
        let rname = format!("{}-r{}", tag, senders);
        let recv = match portus::ipc::unix::Socket::<Blocking>::new(&rname) { Ok(s) => s, Err(e) => { writeln!(out, "transport\tunix senders={}\tcannot-bind {}", senders, e.0).unwrap(); continue; } };
        let raddr = std::path::PathBuf::from(format!("/tmp/ccp/{}", rname));
        let seeds: Vec<u64> = (0..senders).map(|_| r.next()).collect();
        let hs: Vec<_> = (0..senders).map(|s| { let ra = raddr.clone(); let sd = seeds[s]; let sname = format!("{}-s{}-{}", tag, senders, s); thread::spawn(move || {
            let sk = portus::ipc::unix::Socket::<Blocking>::new(&sname).unwrap();
            let mut rr = Rng::new(sd);
            for q in 0..per {
                let len = if rr.chance(1, 50) { 1024 } else { rr.range(13, 1024) as usize };
                let p = payload(s as u8, q as u32, len);
                // a full socket queue makes send fail with ENOBUFS/EAGAIN: retry (that is the kernel's flow control, not loss)
                let mut tries = 0;
                while sk.send(&p, &ra).is_err() { tries += 1; if tries > 20000 { return false; } thread::sleep(std::time::Duration::from_micros(50)); }
            }
            true
        }) }).collect();
        let mut got = vec![]; let mut bad = 0; let mut wrong_addr = 0; let mut buf = [0u8; 1024];
        while got.len() + bad < per * senders {
            match recv.recv(&mut buf) {
                Ok((n, addr)) => match check_payload(&buf[..n]) {
                    Some(x) => { if addr != std::path::PathBuf::from(format!("/tmp/ccp/{}-s{}-{}", tag, senders, x.0)) { wrong_addr += 1; } got.push(x) }
                    None => bad += 1 },
                Err(_) => break,
            }
        }
        let sent_all = hs.into_iter().all(|h| h.join().unwrap());
        let mut res = judge(&got, senders, per, bad);
        if wrong_addr > 0 { res = format!("{} datagrams attributed to the wrong sender address", wrong_addr); }
        if !sent_all { res = format!("sender gave up; {}", res); }
        writeln!(out, "transport\tunix senders={} per={}\t{}", senders, per, res).unwrap();
        let _ = std::fs::remove_file(&raddr);
        for s in 0..senders { let _ = std::fs::remove_file(format!("/tmp/ccp/{}-s{}-{}", tag, senders, s)); }
    }
    // a non-blocking sender bursting at a receiver that is not draining: what send accepted (Ok)
    // is what arrives, once, in order; what it refused (the queue is full) does not count as sent
    {
        let rname = format!("{}-br", tag); let sname = format!("{}-bs", tag);
        let res = match (portus::ipc::unix::Socket::<Nonblocking>::new(&rname), portus::ipc::unix::Socket::<Nonblocking>::new(&sname)) {
            (Ok(recv), Ok(sk)) => {
                let ra = std::path::PathBuf::from(format!("/tmp/ccp/{}", rname));
                let rounds = if thorough { 200 } else { 30 };
                let mut verdict = "intact-once-in-order".to_string();
                let mut seq = 0u32; let mut refused = 0usize; let mut accepted_total = 0usize;
                'outer: for _ in 0..rounds {
                    let mut accepted = vec![];
                    for _ in 0..64 {
                        let len = r.range(13, 1024) as usize;
                        match catch(|| sk.send(&payload(0, seq, len), &ra).is_ok()) {
                            Some(true) => accepted.push(seq),
                            Some(false) => refused += 1,
                            None => { verdict = "PANIC".into(); break 'outer; }
                        }
                        seq += 1;
                    }
                    let mut got = vec![]; let mut buf = [0u8; 1024];
                    while let Ok((n, _)) = recv.recv(&mut buf) { match check_payload(&buf[..n]) { Some((_, q)) => got.push(q), None => { verdict = "corrupted datagram".into(); break 'outer; } } }
                    accepted_total += accepted.len();
                    if got != accepted { verdict = format!("{} sends returned Ok but {} datagrams were delivered (lost, duplicated or reordered)", accepted.len(), got.len()); break; }
                }
                if verdict == "intact-once-in-order" && (refused == 0 || accepted_total == 0) { verdict = format!("burst did not fill the queue: accepted {} refused {}", accepted_total, refused); }
                verdict
            }
            _ => "cannot-bind".to_string(),
        };
        writeln!(out, "transport\tunix-nonblocking-burst\t{}", res).unwrap();
        let _ = std::fs::remove_file(format!("/tmp/ccp/{}", rname)); let _ = std::fs::remove_file(format!("/tmp/ccp/{}", sname));
    }
    {
        let name = format!("{}-nb", tag);
        let res = match portus::ipc::unix::Socket::<Nonblocking>::new(&name) {
            Err(e) => format!("cannot-bind {}", e.0),
            Ok(sk) => {
                let mut buf = [0u8; 64];
                let t0 = std::time::Instant::now();
                let r = catch(|| sk.recv(&mut buf).is_err());
                let quick = t0.elapsed().as_millis() < 300;
                match r { Some(true) if quick => "error-at-once".to_string(), Some(true) => "error-after-blocking".to_string(), Some(false) => "returned-data".to_string(), None => "PANIC".to_string() }
            }
        };
        writeln!(out, "transport\tunix-nonblocking-empty\t{}", res).unwrap();
        let _ = std::fs::remove_file(format!("/tmp/ccp/{}", name));
    }
}
